---------------------------- MODULE KeystoreTrace ----------------------------
(***************************************************************************)
(* Trace specification for C04 / C05: TLC judges every line that           *)
(* harness/cmd/keystore recorded from real wallet managers.                *)
(*                                                                         *)
(* A file holds many traces.  A trace starts with a "reset" line (fresh    *)
(* instances, empty databases) and continues with                          *)
(*   bind  the reference table of a wallet: what the trusted derivation    *)
(*         (BIP-39 seed, BIP-32 path m/44'/coin'/1'/0/index, 1-of-1        *)
(*         witness script hash) gives for the mnemonic the wallet was made *)
(*         from - id, and per index the standard address, the staking      *)
(*         address and the public key.  These are the uninterpreted        *)
(*         Id / Addr / Pub of Keystore.tla made concrete.                  *)
(*   op    one operation: what was asked (a, i, w, c, k; cc = the concrete *)
(*         class of a wrong candidate), the outcome class (res: "ok",      *)
(*         "pass" = passphrase error, "err" = any other error), the        *)
(*         operation's own answers (got), what the instance lists before   *)
(*         and after (pre, view: per wallet its id, the addresses listed   *)
(*         in standard / staking form, the number of private keys held in  *)
(*         memory), the number of write transactions committed (dbw),      *)
(*         whether the logical database content is unchanged (same), and   *)
(*         the secrets found in clear in the database files, the database  *)
(*         content or any returned text (leaks).                           *)
(* The reference state st is advanced by Keystore!Eff.  Two recorded       *)
(* values enter it: the number of addresses an import restored - the free  *)
(* parameter of the specification, after it was checked to cover every     *)
(* index the import had to restore - and whether the operation was granted *)
(* or refused: a refused operation leaves the reference state as it is, a  *)
(* granted one has the effect of the operation.  Where that outcome is not *)
(* the demanded one the line is reported (wrong-accepted, right-refused,   *)
(* must-accept-refused) and the judgement goes on from the state the       *)
(* answer implies, so that one deviation is not reported again at every    *)
(* later line.                                                             *)
(*                                                                         *)
(* State <<ln, t0, st, ref, taint>>: line ln is judged against st / ref,   *)
(* the reference state and tables after lines t0 .. ln-1 of its trace      *)
(* (taint: see known finding K-C05-2 below).  One                          *)
(* initial state per trace.  All lines must be reached (the caller checks  *)
(* the number of distinct states).  Every failed clause is reported        *)
(* (DEVIATION ...) with the property it belongs to and the id of the known *)
(* finding whose pattern explains it (or ""); TLC goes on, so a recorded   *)
(* finding cannot mask another one.  StrictMode = TRUE makes Conforms a    *)
(* real invariant.                                                         *)
(***************************************************************************)
EXTENDS Keystore, Json, KeystoreU

CONSTANTS TraceFile,      \* path of the ndjson trace
          KnownEnabled,   \* ids of known findings whose pattern may explain a deviation
          StrictMode

Trace == ndJsonDeserialize(TraceFile)
NLines == Len(Trace)

VARIABLES ln, t0, st, ref, taint
vars == <<ln, t0, st, ref, taint>>

NoRef == [id |-> "", ref |-> <<>>, mnh |-> "", bits |-> 0]

\* addresses an instance lists for the wallet with this id (0 when it does not show the wallet)
Listed(V, id) == LET xs == {x \in 1..Len(V) : V[x].id = id}
                 IN  IF xs = {} THEN 0 ELSE LET v == V[CHOOSE x \in xs : TRUE] IN Len(v.std) + Len(v.stk)

ImportCnt(l, R) == IF l.a \in {"impks", "impmn"} /\ l.w \in Wal THEN Listed(l.view, R[l.w].id) ELSE 0

\* the operation as granted / as refused (see the header)
Granted(l) == [l EXCEPT !.c = IF @ = "wrong" THEN "right" ELSE @]
Refused(l) == [l EXCEPT !.c = IF @ = "right" THEN "wrong" ELSE @]
ApplySt(S, l, R) ==
    IF l.t = "op" /\ Usable(S, l)
    THEN IF l.res = "ok" THEN Eff(S, Granted(l), Max(ImportCnt(l, R), MustRestore(l)))
         ELSE IF l.a \in GatedOps THEN Eff(S, Refused(l), 0) ELSE S
    ELSE S
\* K-C05-2: an instance on which the right passphrase followed by NUL bytes has been accepted
ApplyTaint(T, l) == IF l.t = "op" /\ l.cc = "nul" /\ l.res = "ok" THEN T \cup {l.i} ELSE T
ApplyRef(R, l) == IF l.t = "bind" /\ l.w \in Wal
                  THEN [R EXCEPT ![l.w] = [id |-> l.refid, ref |-> l.ref, mnh |-> l.refmn, bits |-> l.bits]] ELSE R

Init == \E j \in {x \in 1..NLines : Trace[x].t = "reset"} :
            ln = j /\ t0 = j /\ st = InitState /\ ref = [w \in Wal |-> NoRef] /\ taint = {}
Next == /\ ln < NLines
        /\ Trace[ln + 1].t # "reset"
        /\ ln' = ln + 1
        /\ t0' = t0
        /\ st' = ApplySt(st, Trace[ln], ref)
        /\ ref' = ApplyRef(ref, Trace[ln])
        /\ taint' = ApplyTaint(taint, Trace[ln])
Spec == Init /\ [][Next]_vars

--------------------------------------------------------------------------
(* What an instance must list (C04) and hold (C05) in state S.             *)
Positions(R, w, a, f) == {x \in 1..Len(R[w].ref) : R[w].ref[x][f] = a}
StripCache(V) == [x \in 1..Len(V) |-> [id |-> V[x].id, std |-> V[x].std, stk |-> V[x].stk]]

WalletTags(S, i, w, v, R) ==
    LET n       == N(S, i, w)
        form    == S.inst[i].wal[w].form
        stdPos  == [x \in 1..Len(v.std) |-> Positions(R, w, v.std[x], "std")]
        stkPos  == [x \in 1..Len(v.stk) |-> Positions(R, w, v.stk[x], "stk")]
        unknown == (\E x \in 1..Len(v.std) : stdPos[x] = {}) \/ (\E x \in 1..Len(v.stk) : stkPos[x] = {})
        listed  == UNION ({stdPos[x] : x \in 1..Len(v.std)} \cup {stkPos[x] : x \in 1..Len(v.stk)})
    IN  \* every listed address is an address of this wallet's sequence ...
        (IF unknown THEN {<<"C04", "address-unknown">>} ELSE {})
        \* ... and exactly the indexes 0 .. n-1 are listed, each once (in either form)
        \cup (IF ~unknown /\ (listed # 1..n \/ Len(v.std) + Len(v.stk) # n) THEN {<<"C04", "address-set">>} ELSE {})
        \* an address this instance issued is listed in the form it was issued in
        \cup (IF n <= Len(R[w].ref) /\ \E x \in 1..n :
                    \/ form[x] = "std" /\ R[w].ref[x].std \notin Range(v.std)
                    \/ form[x] = "stk" /\ R[w].ref[x].stk \notin Range(v.stk)
              THEN {<<"C04", "address-form">>} ELSE {})
        \* no private key stays cached after a call - except inside a signing window (hold .. lock)
        \cup (IF v.cached > 0 /\ w \notin S.inst[i].held THEN {<<"C05", "cache-not-empty">>} ELSE {})
        \cup (IF ~v.ready THEN {<<"HARNESS", "wallet-not-ready">>} ELSE {})

ViewTags(S, i, V, R) ==
    LET hereW  == {w \in Wal : Here(S, i, w)}
        expIds == {R[w].id : w \in hereW}
        gotIds == {V[x].id : x \in 1..Len(V)}
    IN  \* the wallets shown are exactly the wallets held, each under the id of its (mnemonic, passphrase)
        (IF expIds # gotIds \/ Len(V) # Cardinality(hereW) THEN {<<"C04", "wallet-id">>} ELSE {})
        \cup UNION {LET xs == {x \in 1..Len(V) : V[x].id = R[w].id}
                    IN  IF xs = {} THEN {} ELSE WalletTags(S, i, w, V[CHOOSE x \in xs : TRUE], R) : w \in hereW}

CachedOf(V, id) == LET xs == {x \in 1..Len(V) : V[x].id = id} IN IF xs = {} THEN 0 ELSE V[CHOOSE x \in xs : TRUE].cached

(* The clauses of one operation line.  S = state before, S2 = state after. *)
OpTags(S, S2, l, R) ==
    LET want == Want(S, l)
        g    == l.got
        w    == l.w
        n    == IF w \in Wal THEN N(S, l.i, w) ELSE 0
    IN  \* --- outcome classes
        (IF want = "ok" /\ l.res # "ok"
         THEN IF l.a \in GatedOps THEN {<<"C05", "right-refused">>} ELSE {<<"C04", "must-accept-refused">>} ELSE {})
        \cup (IF want = "pass" /\ l.res = "ok" THEN {<<"C05", "wrong-accepted">>} ELSE {})
        \cup (IF want = "pass" /\ l.res = "err" THEN {<<"C05", "wrong-error-class">>} ELSE {})
        \* --- a refused attempt alters nothing and unlocks nothing
        \cup (IF want = "pass" /\ l.res # "ok" /\ (l.dbw # 0 \/ ~l.same \/ StripCache(l.view) # StripCache(l.pre))
              THEN {<<"C05", "refused-altered">>} ELSE {})
        \cup (IF want = "pass" /\ l.res # "ok" /\ \E x \in 1..Len(l.view) : l.view[x].cached > CachedOf(l.pre, l.view[x].id)
              THEN {<<"C05", "refused-unlocked">>} ELSE {})
        \cup (IF want = "dup" /\ StripCache(l.view) # StripCache(l.pre) THEN {<<"C04", "dup-import-altered">>} ELSE {})
        \* --- no secret in clear anywhere
        \cup (IF l.leaks # <<>> THEN {<<"C05", "leak">>} ELSE {})
        \cup (IF ~l.canary /\ (\E x \in Wal : Here(S2, l.i, x)) /\ l.res = "ok" THEN {<<"HARNESS", "scan-blind">>} ELSE {})
        \* --- id and addresses are the function of (mnemonic, passphrase)
        \cup (IF l.a = "create" /\ l.res = "ok" /\ (g.id # R[w].id \/ g.mnh # R[w].mnh \/ g.words * 32 # l.k * 3 \/ R[w].bits # l.k)
              THEN {<<"C04", "create-id">>} ELSE {})
        \cup (IF l.a \in {"impks", "impmn"} /\ want = "ok" /\ l.res = "ok" /\ g.id # R[w].id THEN {<<"C04", "import-id">>} ELSE {})
        \cup (IF l.a \in {"impks", "impmn"} /\ want = "ok" /\ l.res = "ok" /\ ImportCnt(l, R) < MustRestore(l)
              THEN {<<"C04", "import-count">>} ELSE {})
        \cup (IF l.a = "newaddr" /\ l.res = "ok" /\ (n + 1 > Len(R[w].ref) \/ g.addr # R[w].ref[n + 1][l.c])
              THEN {<<"C04", "newaddr-address">>} ELSE {})
        \cup (IF l.a = "getmn" /\ want = "ok" /\ l.res = "ok" /\ g.mnh # R[w].mnh THEN {<<"C04", "mnemonic-differs">>} ELSE {})
        \cup (IF l.a = "export" /\ l.res = "ok" /\ ~g.json THEN {<<"C04", "export-not-a-keystore">>} ELSE {})
        \* --- keys match addresses: the key the wallet manages for the address is the derived one, the address
        \*     commits to it, and a signature made on request verifies under it
        \cup (IF l.a = "sign" /\ g.pub # "" /\ (g.commit # g.addr \/ g.pub # R[w].ref[l.k + 1].pub \/ g.addr # R[w].ref[l.k + 1].std)
              THEN {<<"C04", "key-mismatch">>} ELSE {})
        \cup (IF l.a = "sign" /\ l.res = "ok" /\ ~g.sigok THEN {<<"C04", "key-mismatch">>} ELSE {})
        \cup (IF l.a = "sign" /\ want = "ok" /\ g.pub = "" THEN {<<"C04", "address-not-managed">>} ELSE {})
        \* --- the change (internal-branch) addresses a mnemonic import restores: the reference address at every
        \*     restored index is managed, its key commits to it, and a signature made on request verifies under it
        \cup (IF l.a = "impmn" /\ want = "ok" /\ l.res = "ok" /\ (\E j \in DOMAIN g.int : ~g.int[j].managed)
              THEN {<<"C04", "address-not-managed">>} ELSE {})
        \cup (IF l.a = "impmn" /\ want = "ok" /\ l.res = "ok" /\ (\E j \in DOMAIN g.int : g.int[j].managed /\ (~g.int[j].commit \/ ~g.int[j].sigok))
              THEN {<<"C04", "key-mismatch">>} ELSE {})
        \* --- what the instance lists / holds afterwards
        \cup ViewTags(S2, l.i, l.view, R)

--------------------------------------------------------------------------
(* Known finding K-C05-1 (pattern): WalletManager.SignHash leaves the      *)
(* wallet unlocked.  Explained: keys still cached after a call, exactly    *)
(* for wallets that signed with the right passphrase since the last        *)
(* restart (S2.unl); the mnemonic not revealed to the right passphrase     *)
(* (a non-passphrase error) for a wallet whose passphrase was checked by   *)
(* export while it was unlocked (S.mz); the right passphrase refused (as   *)
(* a wrong one) for an unlocked wallet on which the empty candidate was    *)
(* tried (S.sz).  Nothing else.                                            *)
K1(S, S2, l, R, tag) ==
    \/ /\ tag = <<"C05", "cache-not-empty">>
       /\ \A x \in 1..Len(l.view) : l.view[x].cached > 0 =>
              \E w \in S2.inst[l.i].unl : R[w].id = l.view[x].id
    \/ /\ tag = <<"C05", "right-refused">>
       /\ \/ l.a = "getmn" /\ l.res = "err" /\ l.w \in S.inst[l.i].mz
          \/ l.res = "pass" /\ l.w \in S.inst[l.i].sz

(* Known finding K-C05-2 (pattern): the right passphrase followed by NUL   *)
(* bytes is accepted (scrypt = PBKDF2-HMAC zero-pads its key, so P and     *)
(* P || 00.. derive the same master key).  Explained: a C05 clause failing *)
(* on an operation whose candidate is of that class (cc = "nul"), and any  *)
(* C05 clause on an instance after such a candidate was accepted there     *)
(* (taint: the wallet is then unlocked under, removed by, or revealed to   *)
(* the wrong byte string).  The replayer draws that class only in the      *)
(* scripted history of the finding while the finding is recorded, so no    *)
(* other history can be masked by it.                                      *)
K2(l, tag) == tag[1] = "C05" /\ (l.cc = "nul" \/ l.i \in taint)

KnownOf(S, S2, l, R, tag) ==
    IF "K-C05-2" \in KnownEnabled /\ K2(l, tag) THEN "K-C05-2"
    ELSE IF "K-C05-1" \in KnownEnabled /\ K1(S, S2, l, R, tag) THEN "K-C05-1" ELSE ""

Dev(prop, tag, known, l) ==
    [line |-> ln, rel |-> ln - t0 + 1, id |-> Trace[t0].id, prop |-> prop, tag |-> tag, known |-> known,
     op |-> [a |-> l.a, i |-> l.i, w |-> l.w, c |-> l.c, k |-> l.k, cc |-> l.cc, res |-> l.res, err |-> l.err]]

Judged ==
    LET l == Trace[ln] IN
    CASE l.t = "reset" ->
            IF l.u.wal = WalDef /\ Range(l.u.inst) = Inst /\ l.u.pub0 = Pub0 THEN {}
            ELSE {[line |-> ln, rel |-> 1, id |-> l.id, prop |-> "HARNESS", tag |-> "universe-differs", known |-> "", op |-> <<>>]}
      [] l.t = "bind" -> {}
      [] l.t = "op" ->
            IF ~Usable(st, l) THEN {Dev("HARNESS", "operation-not-usable", "", l)}
            ELSE LET S2 == ApplySt(st, l, ref)
                 IN  {Dev(tg[1], tg[2], KnownOf(st, S2, l, ref, tg), l) : tg \in OpTags(st, S2, l, ref)}
      [] OTHER -> {[line |-> ln, rel |-> ln - t0 + 1, id |-> Trace[t0].id, prop |-> "HARNESS", tag |-> "unknown-line", known |-> "", op |-> <<>>]}

Conforms ==
    LET devs == Judged
    IN  /\ \A dv \in devs : PrintT(<<"DEVIATION", ToJson(dv)>>)
        /\ StrictMode => \A dv \in devs : dv.known # ""
=============================================================================
