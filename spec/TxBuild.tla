------------------------------ MODULE TxBuild ------------------------------
(***************************************************************************)
(* C02 / C03: what every transaction-building and signing call must        *)
(* satisfy, as predicates over one recorded call L.                        *)
(*                                                                         *)
(* L.kind    "auto" | "manual" | "staking" | "binding"                     *)
(* L.coins   the wallet's coins as the ledger specification gives them:    *)
(*           [id, amt, addr, class, mature, sbu, reserved]                 *)
(*           (reserved = spent by an earlier outstanding draft)            *)
(* L.others  ids of coins that exist but are not this wallet's             *)
(* L.req     [outs: Seq([to, amt]), fee, from, change, subfee, inputs]     *)
(* L.res     [ok, err, ins, outs: Seq([to, amt, class]), fee,              *)
(*            size, minfee, maxfee, dust]                                  *)
(*           size = serialized size after real signing; minfee / maxfee =  *)
(*           consensus relay fee of that size / of a standard-size tx      *)
(* L.sign    [wrongErr, wrongWitness, rightErr, sameTx, engine]            *)
(* Amounts are Maxwell (scenario totals stay below 2^31).                  *)
(***************************************************************************)
EXTENDS Integers, Sequences, FiniteSets, TLC

Range(s) == {s[i] : i \in DOMAIN s}
SumSeq(s, f(_)) ==
    LET RECURSIVE go(_)
        go(t) == IF t = <<>> THEN 0 ELSE f(Head(t)) + go(Tail(t))
    IN go(s)
SumSet(S, f(_)) ==
    LET RECURSIVE go(_)
        go(T) == IF T = {} THEN 0 ELSE LET x == CHOOSE x \in T : TRUE IN f(x) + go(T \ {x})
    IN go(S)
Amt(x) == x.amt
Max(a, b) == IF a > b THEN a ELSE b

Coin(L, id) == CHOOSE c \in L.coins : c.id = id
Ids(S) == {c.id : c \in S}

\* coins automatic selection may use
Eligible(L) ==
    {c \in L.coins : /\ c.mature /\ c.class \in {"std", "cb"} /\ ~c.sbu /\ ~c.reserved
                     /\ (L.req.from = "" \/ c.addr = L.req.from)}

ReqTotal(L) == SumSeq(L.req.outs, Amt)
InTotal(L)  == SumSeq(L.res.ins, LAMBDA id : IF id \in Ids(L.coins) THEN Coin(L, id).amt ELSE 0)
OutTotal(L) == SumSeq(L.res.outs, Amt)

\* the requested outputs as the transaction must carry them (fee shares subtracted)
Share(L) == IF L.req.subfee = {} THEN 0
            ELSE (L.res.fee + Cardinality(L.req.subfee) - 1) \div Cardinality(L.req.subfee)
Wanted(L) == [i \in DOMAIN L.req.outs |->
                 [to |-> L.req.outs[i].to,
                  amt |-> IF L.req.outs[i].to \in L.req.subfee THEN L.req.outs[i].amt - Share(L) ELSE L.req.outs[i].amt]]

\* multiset of <<to, amt>> pairs of a sequence, as a function pair -> count
Bag(s) == [p \in {<<s[i].to, s[i].amt>> : i \in DOMAIN s} |->
              Cardinality({i \in DOMAIN s : <<s[i].to, s[i].amt>> = p})]
BagMinus(a, b) ==   \* [ok, bag]: a - b when b is a sub-bag of a
    IF \A p \in DOMAIN b : p \in DOMAIN a /\ a[p] >= b[p]
    THEN [ok |-> TRUE,
          bag |-> [p \in {q \in DOMAIN a : q \notin DOMAIN b \/ a[q] > b[q]} |-> IF p \in DOMAIN b THEN a[p] - b[p] ELSE a[p]]]
    ELSE [ok |-> FALSE, bag |-> <<>>]

ChangeAddr(L) == IF L.req.change # "" THEN L.req.change
                 ELSE IF L.res.ins # <<>> /\ L.res.ins[1] \in Ids(L.coins) THEN Coin(L, L.res.ins[1]).addr ELSE "?"

(***************************************************************************)
(* Failure tags of one call; {} = the call conforms.                       *)
(***************************************************************************)
OkFails(L) ==
    LET ins   == L.res.ins
        extra == BagMinus(Bag(L.res.outs), Bag(Wanted(L)))
    IN
    (IF Cardinality(Range(ins)) # Len(ins) THEN {"input-twice"} ELSE {}) \cup
    (IF \E id \in Range(ins) : id \notin Ids(L.coins) THEN {"input-not-own"} ELSE {}) \cup
    (IF L.kind # "manual" /\ \E id \in Range(ins) : id \in Ids(L.coins) /\ id \notin Ids(Eligible(L))
        THEN {"input-not-eligible"} ELSE {}) \cup
    (IF L.kind = "manual" /\ Range(ins) # Range(L.req.inputs) THEN {"inputs-not-as-requested"} ELSE {}) \cup
    (IF ~extra.ok THEN {"requested-output-missing-or-altered"}
     ELSE IF SumSet(DOMAIN extra.bag, LAMBDA p : extra.bag[p]) > 1 THEN {"more-than-one-extra-output"}
     ELSE IF \E p \in DOMAIN extra.bag : p[1] # ChangeAddr(L) THEN {"change-to-wrong-address"}
     ELSE {}) \cup
    (IF InTotal(L) - OutTotal(L) # L.res.fee THEN {"fee-not-inputs-minus-outputs"} ELSE {}) \cup
    (IF L.res.fee < L.req.fee THEN {"fee-below-user-fee"} ELSE {}) \cup
    (IF L.res.signed /\ L.res.fee < L.res.minfee THEN {"fee-below-relay-minimum"} ELSE {}) \cup
    (IF L.res.fee > Max(L.req.fee, L.res.maxfee) THEN {"fee-above-ceiling"} ELSE {})

\* when the request asks for more than the eligible coins hold it must fail with insufficient funds;
\* when they cover outputs + the fee ceiling + a non-dust change it must succeed; in between: don't care
EligibleTotal(L) == SumSet(Eligible(L), Amt)
MustFail(L)    == L.kind # "manual" /\ EligibleTotal(L) < ReqTotal(L) + L.req.fee
MustSucceed(L) == L.kind = "auto" /\ L.req.valid /\ EligibleTotal(L) >= ReqTotal(L) + Max(L.req.fee, L.res.maxfee) + L.res.dust

Fails(L) ==
    IF L.res.panic THEN {"panic"}
    ELSE IF L.res.ok
    THEN OkFails(L) \cup (IF MustFail(L) THEN {"succeeded-without-funds"} ELSE {})
    ELSE (IF MustSucceed(L) THEN {"refused-although-funds-suffice"} ELSE {}) \cup
         (IF MustFail(L) /\ L.res.err \notin {"insufficient", "overfull"} THEN {"wrong-error-for-insufficient-funds"} ELSE {})

(***************************************************************************)
(* C03: signing.                                                           *)
(***************************************************************************)
SignFails(L) ==
    IF ~L.res.ok \/ ~L.sign.tried THEN {}
    ELSE (IF ~L.sign.wrongErr THEN {"wrong-passphrase-accepted"} ELSE {}) \cup
         (IF L.sign.wrongWitness THEN {"signature-material-after-failed-attempt"} ELSE {}) \cup
         (IF L.sign.signable /\ L.sign.rightErr # "" THEN {"right-passphrase-refused"} ELSE {}) \cup
         (IF L.sign.signable /\ L.sign.rightErr = "" /\ ~L.sign.sameTx THEN {"signing-altered-the-transaction"} ELSE {}) \cup
         (IF L.sign.signable /\ L.sign.rightErr = "" /\ ~L.sign.engine THEN {"witness-rejected-by-script-engine"} ELSE {}) \cup
         (IF L.sign.signable /\ L.sign.rightErr = "" /\ ~L.sign.wrongAfterErr THEN {"wrong-passphrase-accepted-after-a-successful-attempt"} ELSE {}) \cup
         (IF L.sign.signable /\ L.sign.rightErr = "" /\ ~L.sign.resignOK THEN {"signing-again-after-an-edit-left-stale-witnesses"} ELSE {}) \cup
         \* the wallet is locked again when a signing call returns - refused, successful or failed half way
         (IF L.sign.cachedAfterWrong # 0 THEN {"private-keys-cached-after-a-refused-attempt"} ELSE {}) \cup
         (IF L.sign.cachedAfterRight # 0 THEN {"private-keys-cached-after-signing"} ELSE {}) \cup
         (IF L.sign.partialTried /\ ~L.sign.partialErr THEN {"transaction-with-an-unknown-input-signed"} ELSE {}) \cup
         (IF L.sign.partialTried /\ L.sign.partialCached # 0 THEN {"private-keys-cached-after-a-request-that-failed-half-way"} ELSE {})
=============================================================================
