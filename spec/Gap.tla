--------------------------------- MODULE Gap ---------------------------------
(***************************************************************************)
(* C12, second sentence: the coupling between the rule under which the     *)
(* wallet issues addresses and the scan a mnemonic restore performs.       *)
(*                                                                         *)
(*   issue   : keystore/addrmgr.go nextAddresses (one address per call)    *)
(*               next = number of child indexes handed out so far          *)
(*               refuse (ErrGapLimit) iff next >= G and none of the G      *)
(*               indexes next-G .. next-1 has history on the node's chain  *)
(*   restore : keystore/manager.go createManagerKeyScope, external branch  *)
(*               hint h (0 is replaced by 1)                               *)
(*               for i = 0; i < last+G or i < h+G; i++ :                   *)
(*                     if index i has history: last = i+1                  *)
(*               next = max(last, h); indexes 0 .. next-1 are restored     *)
(*   history : chain/AddrIndexer through ChainFetcher.CheckScriptHashUsed, *)
(*             i.e. the node's BEST chain - a reorganisation can take it   *)
(*             away again                                                  *)
(*                                                                         *)
(* The chain is abstracted to a sequence of blocks, each paying at most    *)
(* one issued index (-1: none).  The follower is taken to be quiescent     *)
(* after every step (its correctness is Follower.tla's subject), so the    *)
(* wallet's used flag of an issued index equals Used(i).                   *)
(***************************************************************************)
EXTENDS Integers, Sequences, FiniteSets, TLC

CONSTANTS G,          \* address gap limit (>= 2)
          MaxIssue,   \* bound: indexes issued
          MaxBlocks,  \* bound: blocks mined over the whole behaviour
          MaxReorg,   \* deepest reorganisation (0: the chain only grows)
          Hints       \* restore hints explored

VARIABLES cls,        \* cls[i+1]: class ("std" | "stk") index i was issued in
          chain,      \* chain[h]: index paid by the block at height h (-1: none)
          mined       \* blocks mined so far (bound)
vars == <<cls, chain, mined>>

Next_ == Len(cls)                               \* the durable next child number
Used(i) == \E h \in 1..Len(chain) : chain[h] = i
UsedSet == {i \in 0..(Next_ - 1) : Used(i)}

\* ------------------------------------------------------------------ issue rule
Window == (Next_ - G)..(Next_ - 1)
Allowed == Next_ < G \/ \E j \in Window : Used(j)

Init == cls = <<>> /\ chain = <<>> /\ mined = 0

Issue(c) ==
    /\ Allowed /\ Next_ < MaxIssue
    /\ cls' = Append(cls, c)
    /\ UNCHANGED <<chain, mined>>

Refused ==      \* a request that is turned down changes nothing
    /\ ~Allowed
    /\ UNCHANGED vars

Pay(i) ==       \* a block paying issued index i (or nothing: i = -1) extends the chain
    /\ mined < MaxBlocks
    /\ i \in -1..(Next_ - 1)
    /\ chain' = Append(chain, i) /\ mined' = mined + 1
    /\ UNCHANGED cls

\* the last d blocks are replaced by d+1 blocks that repeat a subsequence of their payments
RECURSIVE SubSeqs(_)
SubSeqs(s) == IF s = <<>> THEN {<<>>}
              ELSE LET r == SubSeqs(Tail(s)) IN r \cup {<<Head(s)>> \o x : x \in r}
Pad(s, n) == s \o [k \in 1..(n - Len(s)) |-> -1]

Reorg(d, keep) ==
    /\ d \in 1..MaxReorg /\ d <= Len(chain) /\ mined + d + 1 <= MaxBlocks
    /\ keep \in SubSeqs(SubSeq(chain, Len(chain) - d + 1, Len(chain)))
    /\ chain' = SubSeq(chain, 1, Len(chain) - d) \o Pad(keep, d + 1)
    /\ mined' = mined + d + 1
    /\ UNCHANGED cls
Removed(d) == IF d <= Len(chain) THEN SubSeq(chain, Len(chain) - d + 1, Len(chain)) ELSE <<>>

Restart == UNCHANGED vars      \* child numbers, classes and used flags are durable

\* ---------------------------------------------------------------- restore scan
Max(a, b) == IF a >= b THEN a ELSE b
Hint(h) == IF h = 0 THEN 1 ELSE h
RECURSIVE Scan(_, _, _)
Scan(i, last, h) == IF i < last + G \/ i < h + G
                    THEN Scan(i + 1, IF Used(i) THEN i + 1 ELSE last, h)
                    ELSE last
RestoredNext(h) == Max(Scan(0, 0, Hint(h)), Hint(h))
Restored(h) == 0..(RestoredNext(h) - 1)

Next == (\E c \in {"std", "stk"} : Issue(c)) \/ Refused \/ (\E i \in -1..MaxIssue : Pay(i))
        \/ (\E d \in 1..MaxReorg : \E k \in SubSeqs(Removed(d)) : Reorg(d, k))
        \/ Restart
Spec == Init /\ [][Next]_vars

(* ------------------------------------------------------------- properties *)
TypeOK == /\ cls \in Seq({"std", "stk"}) /\ chain \in Seq(-1..MaxIssue) /\ mined \in 0..MaxBlocks

\* every funded address is found again by a restore, whatever the hint
RestoreFindsFunded == \A h \in Hints : UsedSet \subseteq Restored(h)

\* what the issue rule maintains while history only grows: no G consecutive unfunded
\* indexes are followed by a further issued index
GapInv == \A k \in G..(Next_ - 1) : \E j \in (k - G)..(k - 1) : Used(j)

\* the restore never invents history: what it restores beyond the hint ends in a funded index
RestoreTight == \A h \in Hints : RestoredNext(h) > Hint(h) => Used(RestoredNext(h) - 1)
=============================================================================
