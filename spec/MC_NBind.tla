------------------------------ MODULE MC_NBind ------------------------------
(* Theme "new-style binding" (every height is past the MASSIP0002 warm-up):  *)
(* binding deposits with a 22-byte target and a locked period, withdrawals,  *)
(* a staking deposit next to them.                                           *)
EXTENDS Gen
S(o, a, c, v, l) == [owner |-> o, addr |-> a, class |-> c, amt |-> v, lock |-> l]
MC_TxIds   == {"n1", "n1w", "n2", "n2w", "s3"}
MC_TxIns   == [t \in MC_TxIds |->
                 CASE t = "n1"  -> {<<"c1", 1>>}
                   [] t = "n1w" -> {<<"n1", 1>>}
                   [] t = "n2"  -> {<<"c2", 1>>}
                   [] t = "n2w" -> {<<"n2", 1>>, <<"n2", 2>>}
                   [] t = "s3"  -> {<<"n1", 2>>}]
MC_TxOuts  == [t \in MC_TxIds |->
                 CASE t = "n1"  -> <<S("w1", 0, "nbind", 25, 0), S("w1", 1, "std", 24, 0)>>
                   [] t = "n1w" -> <<S("w1", 1, "std", 24, 0)>>
                   [] t = "n2"  -> <<S("w2", 0, "std", 19, 0), S("w2", 1, "nbind", 40, 0)>>
                   [] t = "n2w" -> <<S("w2", 0, "std", 58, 0)>>
                   [] t = "s3"  -> <<S("w1", 2, "stk", 23, 1)>>]
\* the withdrawals n1w / n2w are never mined: the pinned mass-core AddrIndexer cannot attach a block
\* that withdraws a new-style binding (Amount.AddInt with a negative value underflows), so the
\* harness cannot deliver such a block; they still occur as unconfirmed transactions
MC_TxOrder == <<"n1", "n2", "s3">>
MC_CbId    == <<"c1", "c2", "c3", "c4", "c5", "c6", "c7", "c8", "c9", "c10", "c11", "c12", "c13", "c14">>
MC_CbOut   == <<S("w1", 0, "cb", 50, 0), S("w2", 0, "cb", 60, 0), S("S", 0, "cb", 1, 0),
                S("w1", 1, "cb", 70, 0), S("S", 0, "cb", 1, 0),   S("S", 0, "cb", 1, 0),
                S("S", 0, "cb", 1, 0),   S("S", 0, "cb", 1, 0),   S("S", 0, "cb", 1, 0),
                S("S", 0, "cb", 1, 0),   S("S", 0, "cb", 1, 0),   S("S", 0, "cb", 1, 0),
                S("S", 0, "cb", 1, 0),   S("S", 0, "cb", 1, 0)>>
=============================================================================
