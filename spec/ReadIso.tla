------------------------------ MODULE ReadIso ------------------------------
(***************************************************************************)
(* C17 (first clause): a query that runs while blocks are applied must     *)
(* answer as of ONE block boundary between its start and its end.          *)
(*                                                                         *)
(* The ledger goes through boundary states S[1], S[2], ... (one per commit *)
(* of the follower).  A balance query is a sequence of reads:              *)
(*    1. the synced height            (bucket sync)                        *)
(*    2. the unspent index            (an iterator: a consistent snapshot  *)
(*                                     taken when the iterator is created) *)
(*    3. the credit of every entry    (point reads)                        *)
(*    4. the total balance record     (point read)                         *)
(* Snapshot = FALSE is the store as found: every read sees the state that  *)
(* is current when it is made, so commits between two reads make the query *)
(* mix states.  Snapshot = TRUE is a store whose read transaction pins the *)
(* state at its first read.                                                *)
(*                                                                         *)
(* A coin is [id, h, mat, amt]; S[i] = [height, coins].                    *)
(***************************************************************************)
EXTENDS Integers, Sequences, FiniteSets, TLC

CONSTANTS Snapshot,    \* see above
          S            \* the sequence of boundary states the follower goes through during the query

VARIABLES cur,     \* index of the state that is current (grows: the follower commits)
          pc,      \* "height" | "index" | "credits" | "total" | "done"
          pin,     \* index pinned by the read transaction (Snapshot) or 0
          first,   \* index current at the first read (start of the query)
          rH,      \* height read
          rIdx,    \* coins of the unspent index as read (ids)
          rCred,   \* coins whose credit has been read so far: function id -> coin record or "gone"
          rTot,    \* total read
          todo     \* ids whose credit is still to be read
vars == <<cur, pc, pin, first, rH, rIdx, rCred, rTot, todo>>

Ids(st) == {c.id : c \in st.coins}
CoinOf(st, id) == CHOOSE c \in st.coins : c.id = id
SumAmt(C) == LET RECURSIVE go(_)
                 go(T) == IF T = {} THEN 0 ELSE LET x == CHOOSE x \in T : TRUE IN x.amt + go(T \ {x})
             IN go(C)
Total(st) == SumAmt(st.coins)

\* what a query answers from a single state: total, spendable (confs >= maturity with confs = height - h + 1)
Spendable(st) == SumAmt({c \in st.coins : st.height - c.h + 1 >= c.mat})
Answer(st) == [total |-> Total(st), spendable |-> Spendable(st)]

View(i) == IF Snapshot /\ pin # 0 THEN pin ELSE i

Init == /\ cur = 1 /\ pc = "height" /\ pin = 0 /\ first = 0
        /\ rH = 0 /\ rIdx = {} /\ rCred = <<>> /\ rTot = 0 /\ todo = {}

Commit == /\ cur < Len(S) /\ pc # "done"
          /\ cur' = cur + 1
          /\ UNCHANGED <<pc, pin, first, rH, rIdx, rCred, rTot, todo>>

ReadHeight == /\ pc = "height"
              /\ pin' = (IF Snapshot THEN cur ELSE 0) /\ first' = cur
              /\ rH' = S[cur].height
              /\ pc' = "index"
              /\ UNCHANGED <<cur, rIdx, rCred, rTot, todo>>

ReadIndex == /\ pc = "index"
             /\ rIdx' = Ids(S[View(cur)])
             /\ todo' = Ids(S[View(cur)])
             /\ rCred' = [id \in {} |-> 0]
             /\ pc' = "credits"
             /\ UNCHANGED <<cur, pin, first, rH, rTot>>

ReadCredit == /\ pc = "credits" /\ todo # {}
              /\ \E id \in todo :
                    /\ todo' = todo \ {id}
                    /\ rCred' = rCred @@ (id :> (IF id \in Ids(S[View(cur)]) THEN CoinOf(S[View(cur)], id) ELSE [id |-> id, h |-> 0, mat |-> 0, amt |-> 0]))
              /\ UNCHANGED <<cur, pc, pin, first, rH, rIdx, rTot>>

CreditsDone == /\ pc = "credits" /\ todo = {}
               /\ pc' = "total"
               /\ UNCHANGED <<cur, pin, first, rH, rIdx, rCred, rTot, todo>>

ReadTotal == /\ pc = "total"
             /\ rTot' = Total(S[View(cur)])
             /\ pc' = "done"
             /\ UNCHANGED <<cur, pin, first, rH, rIdx, rCred, todo>>

Next == Commit \/ ReadHeight \/ ReadIndex \/ ReadCredit \/ CreditsDone \/ ReadTotal
Spec == Init /\ [][Next]_vars

\* the answer the code computes from what it read: confs = rH - h + 1 as an UNSIGNED number
\* (a coin above the height read has an astronomically large number of confirmations)
Result ==
    LET got == {rCred[id] : id \in DOMAIN rCred}
        live == {c \in got : c.amt > 0}
        confsOK(c) == IF c.h > rH + 1 THEN TRUE ELSE rH - c.h + 1 >= c.mat
    IN [total |-> rTot, spendable |-> SumAmt({c \in live : confsOK(c)})]

\* C17: the answer is that of one boundary state between the start and the end of the query
OneBoundary == pc = "done" => \E i \in first..cur : Result = Answer(S[i])
\* ... in particular no immature coin is ever reported spendable
NoImmatureSpendable == pc = "done" => \E i \in first..cur : Result.spendable <= Answer(S[i]).spendable \/ Result = Answer(S[i])
=============================================================================
