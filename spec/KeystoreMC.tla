------------------------------ MODULE KeystoreMC ------------------------------
(***************************************************************************)
(* Themes (scripted prefixes) of the C04 / C05 generator configurations    *)
(* (cfg/Keystore_gen_...) and the model-checking universe.  The universe   *)
(* of the generated behaviours is spec/KeystoreU.tla.                      *)
(***************************************************************************)
EXTENDS KeystoreGen, KeystoreU

\* the model-checking universe (cfg/Keystore_MC.cfg): the two wallets over one mnemonic, two public passphrases
M_WalDef == [w1 |-> [mn |-> "m1", pass |-> "p1"], w3 |-> [mn |-> "m1", pass |-> "p2"]]
M_PubToks == {"q1", "q2"}

None == <<>>

\* theme "fn" (C04): one wallet created on A with a standard and a staking address and exported;
\* then everything that moves wallets between instances
P_Fn == << Op("create", "A", "w1", "-", 128), Op("newaddr", "A", "w1", "std", 0),
           Op("newaddr", "A", "w1", "stk", 0), Op("export", "A", "w1", "right", 0) >>

\* theme "gate" (C05): a wallet with addresses on A, its keystore exported, another wallet restored on B
P_Gate == << Op("create", "A", "w1", "-", 128), Op("newaddr", "A", "w1", "std", 0),
             Op("newaddr", "A", "w1", "stk", 0), Op("export", "A", "w1", "right", 0),
             Op("impmn", "B", "w3", "-", 2) >>

\* theme "hold" (C05): the wallet is inside a signing window (unlocked on purpose, as between two inputs of one
\* SignRawTx); every gated operation, public-passphrase change and refused attempt must behave as on a locked wallet
P_Hold == << Op("create", "A", "w1", "-", 128), Op("newaddr", "A", "w1", "std", 0),
             Op("hold", "A", "w1", "right", 0) >>

\* the shortest history on which the code as found refuses the right passphrase (known finding K-C05-1)
P_Known == << Op("create", "A", "w1", "-", 128), Op("newaddr", "A", "w1", "std", 0),
              Op("sign", "A", "w1", "right", 0), Op("export", "A", "w1", "right", 0),
              Op("getmn", "A", "w1", "right", 0), Op("restart", "A", "", "-", 0),
              Op("getmn", "A", "w1", "right", 0),
              \* ... and the empty candidate (the "wrong" one of this history) tried on the unlocked wallet wipes the salt
              Op("sign", "A", "w1", "right", 0), Op("export", "A", "w1", "wrong", 0),
              Op("sign", "A", "w1", "right", 0), Op("restart", "A", "", "-", 0),
              Op("sign", "A", "w1", "right", 0) >>

\* known finding K-C05-2: every "wrong" candidate of this history is the right passphrase followed by NUL bytes
P_Known2 == << Op("create", "A", "w1", "-", 128), Op("newaddr", "A", "w1", "std", 0),
               Op("sign", "A", "w1", "wrong", 0), Op("restart", "A", "", "-", 0),
               Op("getmn", "A", "w1", "wrong", 0), Op("export", "A", "w1", "wrong", 0),
               Op("getmn", "A", "w1", "right", 0), Op("remove", "A", "w1", "wrong", 0) >>
=============================================================================
