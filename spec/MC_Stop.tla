------------------------------- MODULE MC_Stop -------------------------------
EXTENDS Stop
TasksIR == <<"import", "remove">>
TasksI4 == <<"import", "import", "import", "import">>
TasksNone == <<>>
TasksI == <<"import">>
=============================================================================
