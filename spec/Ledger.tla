------------------------------- MODULE Ledger -------------------------------
(***************************************************************************)
(* The oracle: what a wallet must report, stated as pure functions of a    *)
(* chain (the contents cc of the blocks it has applied), the pending set and the  *)
(* wallet name.  These operators are the reference against which both the  *)
(* implementation-shaped ledger of LedgerImpl.tla (checked by TLC) and the *)
(* real code (checked by replay) are compared.                             *)
(***************************************************************************)
EXTENDS Chain

Sum(S, f(_)) ==
    LET RECURSIVE go(_)
        go(T) == IF T = {} THEN 0
                 ELSE LET x == CHOOSE x \in T : TRUE IN f(x) + go(T \ {x})
    IN go(S)

Owns(w, op)   == OutOf(op).owner = w
IsGame(o)     == o.class \in {"stk", "bind", "nbind"}
IsBinding(o)  == o.class \in {"bind", "nbind"}

\* unspent outputs of wallet w on chain c
Utxo(c, w)    == {op \in CreatedOn(c) : Owns(w, op) /\ op \notin SpentOn(c)}
Amt(op)       == OutOf(op).amt
Balance(c, w) == Sum(Utxo(c, w), Amt)

\* an output is usable by the NEXT block exactly when consensus allows it
MatureNext(c, op) == SpendableAt(op, HeightOn(c, op[1]), Len(c) + 1)

SpendableSet(c, w) == {op \in Utxo(c, w) : ~IsGame(OutOf(op)) /\ MatureNext(c, op)}
WdStakingSet(c, w) == {op \in Utxo(c, w) : OutOf(op).class = "stk" /\ MatureNext(c, op)}
WdBindingSet(c, w) == {op \in Utxo(c, w) : IsBinding(OutOf(op)) /\ MatureNext(c, op)}

\* staking / binding deposits of w on c, with their withdrawn flag
Deposits(c, w) == {op \in CreatedOn(c) : Owns(w, op) /\ IsGame(OutOf(op))}
Withdrawn(c, op) == op \in SpentOn(c)

\* addresses of w that have chain history on c: <<addr index, class-of-address>>
\* a staking output is paid to the staking form of the address
AddrClass(o) == IF o.class = "stk" THEN "staking" ELSE "std"
UsedAddrs(c, w) == {<<OutOf(op).addr, AddrClass(OutOf(op))>> : op \in {q \in CreatedOn(c) : Owns(w, q)}}

(***************************************************************************)
(* Pending transactions.  Relevant(t, W) : t spends or pays a wallet of W. *)
(* Settle(p, c) : the largest subset of p that is still unconfirmed and    *)
(* spendable on top of c (no input spent on c, every input created on c or *)
(* by another member) - i.e. p minus confirmed, minus conflicted, minus    *)
(* the descendants of what was removed.                                    *)
(***************************************************************************)
PaysTo(t, W)   == \E k \in 1..Len(TxOuts[t]) : TxOuts[t][k].owner \in W
SpendsOf(t, W) == \E op \in TxIns[t] : OutOf(op).owner \in W
Relevant(t, W) == PaysTo(t, W) \/ SpendsOf(t, W)

RECURSIVE Settle(_, _)
Settle(p, c) ==
    LET bad == {t \in p : \/ t \in TxsOn(c)
                          \/ \E op \in TxIns[t] :
                                \/ op \in SpentOn(c)
                                \/ ~(op \in CreatedOn(c) \/ op[1] \in p)}
    IN IF bad = {} THEN p ELSE Settle(p \ bad, c)

PendingSpent(p)      == UNION {TxIns[t] : t \in p}
PendingCredits(p, w) == {<<t, k>> \in (p \X (1..3)) : k <= Len(TxOuts[t]) /\ TxOuts[t][k].owner = w}

(***************************************************************************)
(* The view a ready wallet must present (what the replay compares).        *)
(***************************************************************************)
View(c, p, w) ==
    [ height    |-> Len(c),
      utxos     |-> {[tx |-> op[1], vout |-> op[2] - 1, amt |-> Amt(op),
                      h |-> HeightOn(c, op[1]), addr |-> OutOf(op).addr,
                      class |-> OutOf(op).class,
                      mat |-> Maturity(OutOf(op)),
                      sbu |-> op \in PendingSpent(p)] : op \in Utxo(c, w)},
      total     |-> Balance(c, w),
      spendable |-> Sum(SpendableSet(c, w), Amt),
      wstaking  |-> Sum(WdStakingSet(c, w), Amt),
      wbinding  |-> Sum(WdBindingSet(c, w), Amt),
      deposits  |-> {[tx |-> op[1], vout |-> op[2] - 1, amt |-> Amt(op),
                      h |-> HeightOn(c, op[1]), class |-> OutOf(op).class,
                      lock |-> OutOf(op).lock, addr |-> OutOf(op).addr,
                      withdrawn |-> Withdrawn(c, op),
                      sbu |-> (~Withdrawn(c, op)) /\ op \in PendingSpent(p)] : op \in Deposits(c, w)},
      pdeposits |-> {[tx |-> op[1], vout |-> op[2] - 1, amt |-> TxOuts[op[1]][op[2]].amt,
                      class |-> TxOuts[op[1]][op[2]].class] :
                         op \in {q \in PendingCredits(p, w) : IsGame(TxOuts[q[1]][q[2]])}},
      used      |-> UsedAddrs(c, w) ]
=============================================================================
