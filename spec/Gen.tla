--------------------------------- MODULE Gen ---------------------------------
(***************************************************************************)
(* Behaviour generator: the same actions as Wallet.tla plus a history      *)
(* variable that is part of the state, so TLC's breadth-first search       *)
(* enumerates EVERY history of length GenDepth over the action alphabet    *)
(* (and -simulate draws random ones).  Each history entry carries the      *)
(* action, its arguments and - when the successor state is quiescent - the *)
(* view every wallet must present, computed by the oracle.  Histories are  *)
(* printed as JSON (one line each) and replayed against the real code.     *)
(*                                                                         *)
(* Only histories that end quiescent are emitted, and a history is pruned  *)
(* as soon as the queued notifications can no longer be drained within the *)
(* remaining steps.  Side blocks are invisible to the wallet, so a         *)
(* reorganisation onto a new branch is the single action Fork.             *)
(***************************************************************************)
EXTENDS Wallet, Json

CONSTANTS GenDepth,     \* length of the histories to emit
          GenForkLen,   \* max length of a new branch (0: no reorganisations)
          GenForkDepth, \* max number of best-chain blocks a Fork detaches
          Removable,    \* wallets the generator may remove
          GenMulti,     \* TRUE: reorganisations also happen step by step (ForkSlow, ReorgStep), see Chain.tla
          GenPending,   \* TRUE: Announce / HandleTx enabled
          Script,       \* <<>>: free generation; otherwise the exact action sequence to follow
                        \* (regression histories: TLC recomputes the expected views for them)
          GenWant,      \* "" or the name of an event every emitted history must contain ("rb-multi", see NewFlags, or):
                        \*   "import-reorg": a block step pulled a rescan cursor back (reorganisation below the cursor
                        \*                   processed while the wallet was importing); the import may not complete before
          GenRandom     \* TRUE (simulation only): one random instance per action kind, so that
                        \* kinds are drawn uniformly instead of proportionally to their instances

VARIABLES hist,
          flags     \* noteworthy events seen so far (steer and filter generation, see GenWant)
gvars == <<vars, hist, flags>>

\* the constant universe, printed once so that the replayer needs no second copy
Universe == [wallets |-> Wallets, txins |-> TxIns, txouts |-> TxOuts,
             cbid |-> CbId, cbout |-> CbOut, base |-> Base, cbmat |-> CbMat,
             bindlock |-> BindLock, initabsent |-> InitAbsent, importbatch |-> ImportBatch]
ASSUME PrintT(<<"UNIV", ToJson(Universe)>>)

\* pending transactions that can never confirm because a coin of a STRANGER that they (or a pending
\* ancestor) spend is spent on the wallet's chain by another transaction, or no longer exists on it (the
\* block that created it was reorganised away): the follower looks for conflicts
\* only among wallet-owned inputs of the transactions it finds relevant, so it never notices (K-C09-2)
StrangerDead(p, cc) ==
    LET dead0 == {t \in p : \E op \in TxIns[t] :
                        /\ OutOf(op).owner \notin Wallets
                        /\ \/ op \in SpentOn(cc)                           \* spent by someone else's transaction
                           \/ (op \notin CreatedOn(cc) /\ op[1] \notin p)}   \* or its block was reorganised away
        RECURSIVE Close(_)
        Close(D) == LET more == {u \in p \ D : \E op \in TxIns[u] : op[1] \in D}
                    IN IF more = {} THEN D ELSE Close(D \cup more)
    IN Close(dead0)

Expect ==
    IF Quiescent'
    THEN [q |-> TRUE,
          sdead |-> StrangerDead(pend', CC(wchain)'),
          synced |-> Len(wchain'),
          onbest |-> wchain' = best',
          best |-> best',
          pend |-> pend',
          pendIdeal |-> Settle(pend', CC(wchain)') \cup {t \in pend' : ~Relevant(t, Ready')},
          status |-> status',
          views |-> [w \in Ready' |-> View(CC(wchain)', pend', w)]]
    ELSE [q |-> FALSE]

NewFlags ==
    (IF \E x \in Wallets : status[x] = "importing" /\ cursor'[x] < cursor[x] THEN {"import-reorg"} ELSE {})
    \* "rb-multi": the wallet disconnects a block that holds a transaction with several inputs
    \* (debits of one transaction recorded under their input indexes, owners mixed)
    \cup (IF \E b \in GoneBlocks(wchain, wchain') : \E t \in Range(content[b]) : Cardinality(TxIns[t]) >= 2
          THEN {"rb-multi"} ELSE {})
    \* "rm-crash": the process dies while a removal is queued, running or between its commits
    \cup (IF up /\ ~up' /\ \E x \in Wallets : status[x] = "removing" THEN {"rm-crash"} ELSE {})

\* the wallet state after a block step is a block boundary whether or not more tips are queued:
\* what a query that answers "as of this boundary" must report (C17)
Boundary == [synced |-> Len(wchain'), views |-> [w \in Ready' |-> View(CC(wchain)', pend', w)]]

Log(r) == /\ hist' = Append(hist, r @@ [exp |-> Expect])
          /\ flags' = flags \cup NewFlags

\* a lower bound on the steps still needed to become quiescent: one per queued notification, a restart,
\* and for every queued rescan one step per batch up to the tip the wallet will have by then
TaskNeed(t) == IF t[1] \in {"remove", "remove2"} THEN 1
               ELSE LET todo == Len(wchain') + Len(ntfB') - cursor'[t[2]]
                    IN IF todo <= ImportBatch THEN 1 ELSE (todo + ImportBatch - 1) \div ImportBatch
RECURSIVE SumNeed(_)
SumNeed(q) == IF q = <<>> THEN 0 ELSE TaskNeed(Head(q)) + SumNeed(Tail(q))
CanFinish == Len(ntfB') + Len(ntfT') + SumNeed(tasks') + (IF up' THEN 0 ELSE 1 + Cardinality(TaskSet'))
                 + ReorgLeft' + (IF reorg' # 0 THEN 1 ELSE 0)
                 <= GenDepth - (Len(hist) + 1)

\* how an accepted announcement relates to the wallet's own chain (classifier of known findings):
\*  "stale" - an input is already spent on the wallet's chain or on the node's (a conflict confirmed first)
\*  "ahead" - a parent is known only from the node's best chain, which the wallet has not applied
AcceptedHow(t) ==
    IF \E op \in TxIns[t] : op \in SpentOn(CC(wchain)) \/ op \in SpentOn(CC(best)) THEN "stale"
    ELSE IF \E op \in TxIns[t] : op[1] \notin TxsOn(CC(wchain)) /\ op[1] \notin pend THEN "ahead"
    ELSE "ok"

Pick(S) == IF GenRandom /\ S # {} THEN {RandomElement(S)} ELSE S

NoScript == <<>>
GenInit == Init /\ hist = <<>> /\ flags = {}

\* does log entry r perform scripted action s ?
SameAct(r, s) ==
    /\ r.a = s.a
    /\ CASE s.a \in {"Extend", "Fork", "ForkSlow"} -> r.b = s.b /\ r.p = s.p /\ r.txs = s.txs
         [] s.a \in {"HandleBlock", "SwitchTo"} -> r.b = s.b
         [] s.a \in {"Announce", "HandleTx"}    -> r.t = s.t
         [] s.a \in {"RestartCrash", "RemoveStepCrash"} -> r.k = s.k
         [] s.a \in {"Import", "Remove", "ImportStep", "RemoveStep", "RemoveStepA", "RemoveStepB"} -> r.w = s.w
         [] OTHER                              -> TRUE

GenNext ==
    /\ Len(hist) < GenDepth
    /\ \/ up /\ \E txs \in Pick(Contents(CC(best))) :
             /\ Extend(txs) /\ UNCHANGED followerVars
             /\ Log([a |-> "Extend", b |-> NBlk + 1, p |-> Tip, txs |-> <<txs>>])
       \/ up /\ \E pk \in Pick({x \in Range(best) \X (1..GenForkLen) :
                               /\ Len(best) - Height(x[1]) <= GenForkDepth
                               /\ x[1] # Tip /\ x[1] >= Base
                               /\ NBlk + x[2] <= MaxBlocks}) :
             LET p == pk[1]  k == pk[2] IN
             /\ \E cs \in Pick(BranchContents(CC(Path(p)), NBlk, k)) :
                   /\ Fork(p, cs) /\ UNCHANGED followerVars
                   /\ Log([a |-> "Fork", b |-> NBlk + 1, p |-> p, txs |-> cs])
       \/ /\ GenForkLen > 0 /\ up
          /\ \E l \in Pick({x \in Blocks : IsLeaf(x) /\ ~OnBest(x)}) :
             /\ SwitchTo(l) /\ UNCHANGED followerVars
             /\ Log([a |-> "SwitchTo", b |-> l])
       \/ GenMulti /\ up /\ \E pk \in Pick({x \in Range(best) \X (1..GenForkLen) :
                               /\ Len(best) - Height(x[1]) <= GenForkDepth
                               /\ x[1] # Tip /\ x[1] >= Base
                               /\ NBlk + x[2] <= MaxBlocks}) :
             LET p == pk[1]  k == pk[2] IN
             /\ \E cs \in Pick(BranchContents(CC(Path(p)), NBlk, k)) :
                   /\ ForkSlow(p, cs) /\ UNCHANGED followerVars
                   /\ Log([a |-> "ForkSlow", b |-> NBlk + 1, p |-> p, txs |-> cs])
       \/ /\ GenMulti /\ up /\ ReorgStep /\ UNCHANGED followerVars
          /\ Log([a |-> "ReorgStep", det |-> ReorgDetaches, b |-> IF ReorgDetaches THEN Tip ELSE Last(best'), done |-> reorg' = 0])
       \/ /\ GenPending /\ up
          /\ \E t \in Pick({x \in TxIds : PoolOK(x, pool, CC(best))}) :
             /\ Announce(t) /\ UNCHANGED followerVars
             /\ Log([a |-> "Announce", t |-> t])
       \/ /\ Lifecycle
          /\ \E x \in Pick({y \in Wallets : status[y] = "absent" /\ ~Busy /\ up}) :
                Import(x) /\ Log([a |-> "Import", w |-> x])
       \/ /\ Lifecycle
          /\ \E x \in Pick({y \in Wallets : status[y] = "ready" /\ ~Busy /\ up /\ y \in Removable}) :
                Remove(x) /\ Log([a |-> "Remove", w |-> x])
       \/ /\ Lifecycle /\ ImportStep
          /\ (GenWant = "import-reorg" /\ "import-reorg" \notin flags) => status'[Head(tasks)[2]] # "ready"
          /\ Log([a |-> "ImportStep", w |-> Head(tasks)[2], cur |-> cursor'[Head(tasks)[2]],
                  done |-> status'[Head(tasks)[2]] = "ready", qlen |-> Len(tasks)])
       \/ /\ Lifecycle /\ RemoveStep /\ Log([a |-> "RemoveStep", w |-> Head(tasks)[2], qlen |-> Len(tasks)])
       \/ /\ Lifecycle /\ GenMulti /\ RemoveStepA /\ Log([a |-> "RemoveStepA", w |-> Head(tasks)[2], qlen |-> Len(tasks)])
       \/ /\ Lifecycle /\ GenMulti /\ RemoveStepB /\ Log([a |-> "RemoveStepB", w |-> Head(tasks)[2], qlen |-> Len(tasks)])
       \/ /\ Crashes /\ Lifecycle /\ Cardinality(TaskSet) <= 1
          /\ \E k \in Pick(1..RemoveCommits) :
                RemoveStepCrash(k) /\ Log([a |-> "RemoveStepCrash", w |-> Head(tasks)[2], k |-> k])
       \/ /\ Crashes /\ Cardinality(TaskSet) <= 1     \* (the order in which a restart re-queues several tasks is the store's key order)
          /\ Crash /\ Log([a |-> "Crash"])
       \/ /\ Crashes /\ Restart /\ Log([a |-> "Restart"])
       \/ /\ Crashes /\ \E k \in Pick(1..CatchUpSteps(wchain)) :
                         RestartCrash(k) /\ Log([a |-> "RestartCrash", k |-> k])
       \/ HandleBlock /\ Log([a |-> "HandleBlock", b |-> Head(ntfB), bnd |-> Boundary])
       \/ HandleTx /\ Log([a |-> "HandleTx", t |-> Head(ntfT), acc |-> TxAccepted(Head(ntfT)),
                            why |-> AcceptedHow(Head(ntfT))])
    /\ Script = <<>> => CanFinish
    /\ Script # <<>> => SameAct(hist'[Len(hist')], Script[Len(hist')])

GenSpec == GenInit /\ [][GenNext]_gvars

\* emitted for every full-length history that ends quiescent; never violated
Emit == (Len(hist) = GenDepth /\ Quiescent /\ (GenWant = "" \/ GenWant \in flags)) => PrintT(<<"HIST", ToJson(hist)>>)
=============================================================================
