----------------------------- MODULE KVStoreEnc -----------------------------
(***************************************************************************)
(* The DESIGN of masswallet/db/ldb, stated in TLA+ and checked by TLC to   *)
(* refine the reference map of KVStore.tla:                                *)
(*                                                                         *)
(*   - one flat ordered map (LevelDB); a bucket of depth d with names      *)
(*     n1..nd is the index entry  b_<d>_<n1>_.._<nd> -> <nd>; its entries  *)
(*     are <d>_<n1>_.._<nd>_<key> -> value; listings, prefix reads, Clear  *)
(*     and DeleteBucket are prefix scans;                                  *)
(*   - a write transaction is a batch: puts and deletes stamped with a     *)
(*     sequence number, overlaid on the committed map by every read        *)
(*     (batch.Get, GetNetPutsByPrefix), written atomically by Commit.      *)
(*                                                                         *)
(* The model runs the encoded store and the reference state side by side   *)
(* (abs' = KVStore!Eff(abs, op)) and checks after every step that          *)
(*   Refines   everything the encoded store can be asked - bucket lookup,  *)
(*             listing, the entries of every bucket - through a read       *)
(*             transaction equals the committed reference store, and       *)
(*             through the write transaction equals its view;              *)
(*   Agrees    the result class of the step is the one KVStore!Res fixes;  *)
(*   NoGarbage every key of the flat map belongs to an existing bucket.    *)
(* This is a statement about the design; the verdict on the code comes     *)
(* from the replays and traces (KVStoreGen / KVStoreTrace).                *)
(*                                                                         *)
(* Switches (model-level mutations, used to show that the checks bite and  *)
(* to state known finding K-C11-1 at design level):                        *)
(*   LookupSeesDeletes  FALSE = the code as it is: Bucket() looks at the   *)
(*                      committed index and at the batch's puts only       *)
(*   CheckNames         FALSE = bucket names containing "_" accepted       *)
(***************************************************************************)
EXTENDS KVStore

CONSTANTS ENames,      \* bucket names tried (byte strings)
          EKeys,       \* keys tried
          EVals,       \* values tried
          EDepth,      \* maximal bucket depth
          ESteps,      \* bound on the number of steps
          LookupSeesDeletes, CheckNames

VARIABLES flat,    \* committed LevelDB content: function byte string -> byte string
          bopen,   \* write transaction open
          puts,    \* batch: key -> [v, seq]
          dels,    \* batch: key -> seq
          seqno,
          abs,     \* reference state (KVStore)
          agree,   \* the last step's result class was the one the reference fixes
          steps
vars == <<flat, bopen, puts, dels, seqno, abs, agree, steps>>

--------------------------------------------------------------------------
(* encoding *)
US == <<Sep>>
Digit(d) == <<48 + d>>                       \* depths 1..9
RECURSIVE Join(_)
Join(ss) == IF Len(ss) = 1 THEN ss[1] ELSE ss[1] \o US \o Join(Tail(ss))
PathStr(p) == Join(<<Digit(Len(p))>> \o p)                 \* <d>_<n1>_.._<nd>
IdxKey(p)  == <<98>> \o US \o PathStr(p)                   \* b_<d>_<n1>_.._<nd>
EntPre(p)  == PathStr(p) \o US                             \* prefix of the entries of p
EncKey(p, k) == EntPre(p) \o k
SubIdxPre(p) == <<98>> \o US \o Join(<<Digit(Len(p) + 1)>> \o p \o <<<<>>>>)   \* b_<d+1>_<n1>_.._<nd>_
RECURSIVE SplitUS(_)
SplitUS(s) == LET i == CHOOSE j \in 1..Len(s) + 1 : (j = Len(s) + 1 \/ s[j] = Sep) /\ \A m \in 1..j - 1 : s[m] # Sep
              IN  IF i = Len(s) + 1 THEN <<s>> ELSE <<SubSeq(s, 1, i - 1)>> \o SplitUS(SubSeq(s, i + 1, Len(s)))

NameOK(n) == IF CheckNames THEN ValidName(n) ELSE Len(n) >= 1

--------------------------------------------------------------------------
(* batch (ldb.batch) *)
BGet(k) ==   \* <<value or <<>> (nil), deleted>>
    IF k \in DOMAIN dels
    THEN IF k \notin DOMAIN puts \/ dels[k] > puts[k].seq THEN <<<<>>, TRUE>> ELSE <<puts[k].v, FALSE>>
    ELSE IF k \in DOMAIN puts THEN <<puts[k].v, FALSE>> ELSE <<<<>>, FALSE>>
NetPuts(pre) == {k \in DOMAIN puts : IsPrefixOf(pre, k) /\ (k \notin DOMAIN dels \/ puts[k].seq > dels[k])}

\* what a transaction sees under flat key k (levelBucket.Get): <<>> = nothing
SeeKey(w, k) ==
    IF ~w THEN (IF k \in DOMAIN flat THEN flat[k] ELSE <<>>)
    ELSE IF k \in DOMAIN flat
         THEN (IF BGet(k)[2] THEN <<>> ELSE IF BGet(k)[1] # <<>> THEN BGet(k)[1] ELSE flat[k])
         ELSE BGet(k)[1]
\* keys with prefix pre that a transaction sees (GetByPrefix / BucketNames / Clear scans)
ScanKeys(w, pre) ==
    IF ~w THEN {k \in DOMAIN flat : IsPrefixOf(pre, k)}
    ELSE {k \in DOMAIN flat : IsPrefixOf(pre, k) /\ ~BGet(k)[2]} \cup NetPuts(pre)

\* Bucket() / TopLevelBucket() / FetchBucket(): is the index entry of p there
IdxThere(w, p) ==
    LET k == IdxKey(p) IN
    IF w /\ LookupSeesDeletes /\ BGet(k)[2] THEN FALSE
    ELSE k \in DOMAIN flat \/ (w /\ BGet(k)[1] # <<>>)
\* navigation by name from the transaction root
RECURSIVE Lookup(_, _)
Lookup(w, p) == IF p = <<>> THEN TRUE ELSE Lookup(w, Parent(p)) /\ NameOK(Name(p)) /\ IdxThere(w, p)

\* levelBucket.BucketNames / transaction.BucketNames
ListNames(w, p) == {Name(SplitUS(k)) : k \in ScanKeys(w, SubIdxPre(p))}
\* entries of p as the transaction sees them
EntryKeys(w, p) == {SubSeq(k, Len(EntPre(p)) + 1, Len(k)) : k \in ScanKeys(w, EntPre(p))}

BPut(k, v) == /\ puts' = [x \in DOMAIN puts \cup {k} |-> IF x = k THEN [v |-> v, seq |-> seqno + 1] ELSE puts[x]]
              /\ dels' = dels /\ seqno' = seqno + 1
BDelSet(ks) == /\ dels' = [x \in DOMAIN dels \cup ks |-> IF x \in ks THEN seqno + 1 ELSE dels[x]]
               /\ puts' = puts /\ seqno' = seqno + 1

\* deleteBucket: the keys it deletes, found by listing and scanning as the code does
RECURSIVE DelKeys(_)
DelKeys(p) == {IdxKey(p)} \cup ScanKeys(TRUE, EntPre(p))
              \cup UNION {DelKeys(p \o <<n>>) : n \in {m \in ListNames(TRUE, p) : IdxThere(TRUE, p \o <<m>>)}}

--------------------------------------------------------------------------
Paths == UNION {[1..d -> ENames] : d \in 1..EDepth}
W(a, p, k, v) == [a |-> a, via |-> "w", p |-> p, k |-> k, v |-> v, k2 |-> <<>>, n |-> 0, s |-> FALSE]
C(a, m) == [a |-> a, via |-> m, p |-> <<>>, k |-> <<>>, v |-> <<>>, k2 |-> <<>>, n |-> 0, s |-> FALSE]

Init == /\ flat = <<>> /\ bopen = FALSE /\ puts = <<>> /\ dels = <<>> /\ seqno = 0
        /\ abs = InitState /\ agree = TRUE /\ steps = 0

\* every step advances the reference by Eff and records whether the implementation's result
\* class c is admitted by Res
Ref(op, c) == /\ abs' = Eff(abs, op)
              /\ agree' = Match(Res(abs, op), [c |-> c, x |-> <<>>])
              /\ steps' = steps + 1

Begin == /\ ~bopen /\ bopen' = TRUE /\ puts' = <<>> /\ dels' = <<>> /\ seqno' = 0 /\ flat' = flat
         /\ Ref(C("begin", "m"), "ok")
Commit == /\ bopen /\ bopen' = FALSE
          /\ flat' = [k \in (DOMAIN flat \cup NetPuts(<<>>)) \ {x \in DOMAIN dels : BGet(x)[2]} |->
                          IF k \in NetPuts(<<>>) THEN puts[k].v ELSE flat[k]]
          /\ puts' = <<>> /\ dels' = <<>> /\ seqno' = 0
          /\ Ref(C("commit", "-"), "ok")
Rollback == /\ bopen /\ bopen' = FALSE /\ flat' = flat /\ puts' = <<>> /\ dels' = <<>> /\ seqno' = 0
            /\ Ref(C("rollback", "-"), "ok")

Create(p) ==
    /\ bopen /\ UNCHANGED <<flat, bopen>>
    /\ IF ~Lookup(TRUE, Parent(p)) THEN UNCHANGED <<puts, dels, seqno>> /\ Ref(W("create", p, <<>>, <<>>), "nobucket")
       ELSE IF ~NameOK(Name(p)) THEN UNCHANGED <<puts, dels, seqno>> /\ Ref(W("create", p, <<>>, <<>>), "err")
       ELSE IF IdxKey(p) \in DOMAIN flat /\ ~BGet(IdxKey(p))[2]
            THEN UNCHANGED <<puts, dels, seqno>> /\ Ref(W("create", p, <<>>, <<>>), "err")
       ELSE BPut(IdxKey(p), Name(p)) /\ Ref(W("create", p, <<>>, <<>>), "ok")
DelB(p) ==
    /\ bopen /\ Len(p) >= 2 /\ UNCHANGED <<flat, bopen>>
    /\ IF ~Lookup(TRUE, Parent(p)) THEN UNCHANGED <<puts, dels, seqno>> /\ Ref(W("delb", p, <<>>, <<>>), "nobucket")
       ELSE IF ~(NameOK(Name(p)) /\ IdxThere(TRUE, p)) THEN UNCHANGED <<puts, dels, seqno>> /\ Ref(W("delb", p, <<>>, <<>>), "ok")
       ELSE BDelSet(DelKeys(p)) /\ Ref(W("delb", p, <<>>, <<>>), "ok")
Put(p, k, v) ==
    /\ bopen /\ UNCHANGED <<flat, bopen>>
    /\ IF ~Lookup(TRUE, p) THEN UNCHANGED <<puts, dels, seqno>> /\ Ref(W("put", p, k, v), "nobucket")
       ELSE IF k = <<>> \/ v = <<>> THEN UNCHANGED <<puts, dels, seqno>> /\ Ref(W("put", p, k, v), "err")
       ELSE BPut(EncKey(p, k), v) /\ Ref(W("put", p, k, v), "ok")
Del(p, k) ==
    /\ bopen /\ UNCHANGED <<flat, bopen>>
    /\ IF ~Lookup(TRUE, p) THEN UNCHANGED <<puts, dels, seqno>> /\ Ref(W("del", p, k, <<>>), "nobucket")
       ELSE IF k = <<>> THEN UNCHANGED <<puts, dels, seqno>> /\ Ref(W("del", p, k, <<>>), "ok")
       ELSE BDelSet({EncKey(p, k)}) /\ Ref(W("del", p, k, <<>>), "ok")
Clear(p) ==
    /\ bopen /\ UNCHANGED <<flat, bopen>>
    /\ IF ~Lookup(TRUE, p) THEN UNCHANGED <<puts, dels, seqno>> /\ Ref(W("clear", p, <<>>, <<>>), "nobucket")
       ELSE BDelSet(ScanKeys(TRUE, EntPre(p))) /\ Ref(W("clear", p, <<>>, <<>>), "ok")

Next == /\ steps < ESteps
        /\ \/ Begin \/ Commit \/ Rollback
           \/ \E p \in Paths : Create(p) \/ DelB(p) \/ Clear(p)
           \/ \E p \in Paths, k \in EKeys : Del(p, k) \/ \E v \in EVals : Put(p, k, v)
Spec == Init /\ [][Next]_vars

--------------------------------------------------------------------------
(* what the encoded store answers, against the reference *)
SameAs(w, S) ==
    /\ \A p \in Paths : Lookup(w, p) <=> p \in S.bk
    /\ ListNames(w, <<>>) = Children(S, <<>>)
    /\ \A p \in S.bk :
         /\ ListNames(w, p) = Children(S, p)
         /\ EntryKeys(w, p) = KeysOf(S, p)
         /\ \A k \in KeysOf(S, p) : SeeKey(w, EncKey(p, k)) = S.kv[<<p, k>>]

Refines  == SameAs(FALSE, abs.com) /\ (bopen => SameAs(TRUE, abs.view))
Agrees   == agree
NoGarbage == \A x \in DOMAIN flat :
                 \/ \E p \in abs.com.bk : x = IdxKey(p)
                 \/ \E p \in abs.com.bk : IsPrefixOf(EntPre(p), x) /\ SubSeq(x, Len(EntPre(p)) + 1, Len(x)) \in KeysOf(abs.com, p)
=============================================================================
