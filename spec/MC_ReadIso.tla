----------------------------- MODULE MC_ReadIso -----------------------------
EXTENDS ReadIso
C(id, h, mat, amt) == [id |-> id, h |-> h, mat |-> mat, amt |-> amt]
\* three connects: a coinbase (maturity 3) arrives, then two more blocks; a payment is spent meanwhile
States == << [height |-> 5, coins |-> {C("a", 2, 0, 10), C("b", 4, 3, 50)}],
             [height |-> 6, coins |-> {C("a", 2, 0, 10), C("b", 4, 3, 50), C("c", 6, 3, 50)}],
             [height |-> 7, coins |-> {C("b", 4, 3, 50), C("c", 6, 3, 50), C("d", 7, 0, 7)}],
             [height |-> 8, coins |-> {C("b", 4, 3, 50), C("c", 6, 3, 50), C("d", 7, 0, 7), C("e", 8, 3, 50)}] >>
=============================================================================
