------------------------------- MODULE MC_Pay -------------------------------
(* Theme "pay": coinbases to two wallets, a payment with change shared by    *)
(* both wallets, a spend chain, a two-input consolidation whose two outputs   *)
(* go to two addresses of one wallet, a conflicting                          *)
(* pair (double spend of a wallet coin) and a payment in the other direction.*)
(* p5 spends a coin of EACH wallet in one transaction.                        *)
EXTENDS Gen
S(o, a, c, v, l) == [owner |-> o, addr |-> a, class |-> c, amt |-> v, lock |-> l]
MC_TxIds   == {"p1", "p1x", "p2", "p3", "p4", "p5"}
MC_TxIns   == [t \in MC_TxIds |->
                 CASE t = "p1"  -> {<<"c1", 1>>}
                   [] t = "p1x" -> {<<"c1", 1>>}
                   [] t = "p2"  -> {<<"p1", 1>>}
                   [] t = "p3"  -> {<<"p1", 2>>, <<"c3", 1>>}
                   [] t = "p4"  -> {<<"c2", 1>>}
                   [] t = "p5"  -> {<<"c2", 1>>, <<"c3", 1>>}]
MC_TxOuts  == [t \in MC_TxIds |->
                 CASE t = "p1"  -> <<S("w2", 0, "std", 20, 0), S("w1", 1, "std", 29, 0)>>
                   [] t = "p1x" -> <<S("S", 0, "std", 49, 0)>>
                   [] t = "p2"  -> <<S("S", 0, "std", 5, 0), S("w2", 1, "std", 14, 0)>>
                   [] t = "p3"  -> <<S("w1", 0, "std", 60, 0), S("w1", 1, "std", 38, 0)>>
                   [] t = "p4"  -> <<S("w1", 0, "std", 31, 0), S("w2", 0, "std", 28, 0)>>
                   [] t = "p5"  -> <<S("S", 0, "std", 100, 0), S("w2", 1, "std", 27, 0)>>]
MC_TxOrder == <<"p1", "p1x", "p4", "p5", "p2", "p3">>
MC_CbId    == <<"c1", "c2", "c3", "c4", "c5", "c6", "c7", "c8", "c9", "c10", "c11", "c12">>
MC_CbOut   == <<S("w1", 0, "cb", 50, 0), S("w2", 0, "cb", 60, 0), S("w1", 1, "cb", 70, 0),
                S("S", 0, "cb", 1, 0),   S("w2", 1, "cb", 80, 0), S("S", 0, "cb", 1, 0),
                S("w1", 0, "cb", 90, 0), S("S", 0, "cb", 1, 0),   S("S", 0, "cb", 1, 0),
                S("S", 0, "cb", 1, 0),   S("S", 0, "cb", 1, 0),   S("S", 0, "cb", 1, 0)>>
=============================================================================
