------------------------------- MODULE MC_Many -------------------------------
(* Theme "many small coins": every block pays the same wallet through its      *)
(* coinbase, so that a plain chain gives one wallet more coins than a         *)
(* transaction can spend at the minimum relay fee (fee escalation, send-max). *)
EXTENDS Gen
S(o, a, c, v, l) == [owner |-> o, addr |-> a, class |-> c, amt |-> v, lock |-> l]
MC_TxIds   == {}
MC_TxIns   == [t \in {} |-> {}]
MC_TxOuts  == [t \in {} |-> <<>>]
MC_TxOrder == <<>>
MC_CbId    == [b \in 1..24 |-> "c" \o ToString(b)]
MC_CbOut   == [b \in 1..24 |-> S("w1", b % 2, "cb", 100 + b, 0)]
=============================================================================
