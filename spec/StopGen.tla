------------------------------ MODULE StopGen ------------------------------
(* Every maximal behaviour of Stop.tla as a schedule (sequence of action    *)
(* names) with the kind of its final state; replayed on the real goroutines *)
(* through the scheduling gates (harness/replay/stop.go).                   *)
EXTENDS Stop, Json
CONSTANT StopEnabled   \* FALSE: behaviours without a stop request (task completion scenarios)
VARIABLE hist
gvars == <<vars, hist>>
TasksIR == <<"import", "remove">>
TasksI == <<"import">>
TasksR == <<"remove">>
TasksNone == <<>>
TasksI4 == <<"import", "import", "import", "import">>

Step(A, name) == A /\ hist' = Append(hist, name)

GenInit == Init /\ hist = <<>>
GenNext ==
    \/ Step(HQuit, "HQuit") \/ Step(HQuitSuspended, "HQuitSuspended") \/ Step(HBlock, "HBlock") \/ Step(Suspend, "Suspend") \/ Step(Resume, "Resume")
    \/ Step(WQuit, "WQuit") \/ Step(WTake, "WTake") \/ Step(WSuspendQuit, "WSuspendQuit")
    \/ Step(WUpdate, "WUpdate") \/ Step(WResumeQuit, "WResumeQuit") \/ Step(WAfter, "WAfter")
    \/ (StopEnabled /\ Step(SClose, "SClose")) \/ Step(SDone, "SDone") \/ Step(Accept("import"), "Accept")
GenSpec == GenInit /\ [][GenNext]_gvars

Final == IF spc = "stopped" THEN "stopped" ELSE IF spc = "closed" THEN "deadlock" ELSE "idle"
Emit == (~ENABLED GenNext) => PrintT(<<"HIST", ToJson([actions |-> hist, final |-> Final, tasks |-> Tasks])>>)
=============================================================================
