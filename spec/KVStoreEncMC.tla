---------------------------- MODULE KVStoreEncMC ----------------------------
(* Universes for the design-level refinement check (KVStoreEnc).  Names and   *)
(* keys are chosen so that encoded keys of one bucket look like another       *)
(* bucket's: a key "b_x" in /a against the sub-bucket /a/b, a key that starts *)
(* with a depth digit, a bucket named like a depth.                           *)
EXTENDS KVStoreEnc
E_Names  == {<<97>>, <<98>>, <<50>>}                      \* "a" "b" "2"
E_NamesX == {<<97>>, <<98>>, <<97, 95, 98>>}              \* "a" "b" "a_b" (illegal)
E_Keys   == {<<98>>, <<98, 95, 98>>, <<50, 95, 97>>}       \* "b" "b_b" "2_a"
E_KeysX  == {<<98>>, <<98, 95, 98>>}
E_Vals   == {<<118>>, <<119>>}
E_Vals1  == {<<118>>}
E_Names2 == {<<97>>, <<98>>}
E_Keys1  == {<<98, 95, 98>>}
=============================================================================
