------------------------------ MODULE MC_Stake ------------------------------
(* Theme "staking + old-style binding": deposits with change, a deposit paid *)
(* by one wallet to the other's staking address, withdrawals (valid only     *)
(* once consensus allows), a conflicting spend of the funding coin.  The     *)
(* deposits of s2 and b1 are NOT the first output of their transaction; the  *)
(* holder address of b1's binding is paid by nothing else (its first use is  *)
(* a binding output).                                                        *)
EXTENDS Gen
S(o, a, c, v, l) == [owner |-> o, addr |-> a, class |-> c, amt |-> v, lock |-> l]
MC_TxIds   == {"s1", "s1x", "s2", "s1w", "b1", "b1w"}
MC_TxIns   == [t \in MC_TxIds |->
                 CASE t = "s1"  -> {<<"c1", 1>>}
                   [] t = "s1x" -> {<<"c1", 1>>}
                   [] t = "s2"  -> {<<"s1", 2>>}
                   [] t = "s1w" -> {<<"s1", 1>>}
                   [] t = "b1"  -> {<<"c2", 1>>}
                   [] t = "b1w" -> {<<"b1", 2>>}]
MC_TxOuts  == [t \in MC_TxIds |->
                 CASE t = "s1"  -> <<S("w1", 2, "stk", 30, 2), S("w1", 1, "std", 19, 0)>>
                   [] t = "s1x" -> <<S("S", 0, "std", 49, 0)>>
                   [] t = "s2"  -> <<S("w1", 0, "std", 8, 0), S("w2", 2, "stk", 10, 1)>>
                   [] t = "s1w" -> <<S("w1", 0, "std", 29, 0)>>
                   [] t = "b1"  -> <<S("w2", 0, "std", 34, 0), S("w2", 1, "bind", 25, 0)>>
                   [] t = "b1w" -> <<S("w2", 1, "std", 24, 0)>>]
MC_TxOrder == <<"s1", "s1x", "b1", "s2", "s1w", "b1w">>
MC_CbId    == <<"c1", "c2", "c3", "c4", "c5", "c6", "c7", "c8", "c9", "c10", "c11", "c12", "c13", "c14">>
MC_CbOut   == <<S("w1", 0, "cb", 50, 0), S("w2", 0, "cb", 60, 0), S("S", 0, "cb", 1, 0),
                S("w1", 1, "cb", 70, 0), S("S", 0, "cb", 1, 0),   S("S", 0, "cb", 1, 0),
                S("w2", 1, "cb", 80, 0), S("S", 0, "cb", 1, 0),   S("S", 0, "cb", 1, 0),
                S("S", 0, "cb", 1, 0),   S("S", 0, "cb", 1, 0),   S("S", 0, "cb", 1, 0),
                S("S", 0, "cb", 1, 0),   S("S", 0, "cb", 1, 0)>>
=============================================================================
