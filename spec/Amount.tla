------------------------------- MODULE Amount -------------------------------
(***************************************************************************)
(* C15 - Amount strings and integer amounts convert exactly.               *)
(*                                                                         *)
(* Functional specification of the two conversions between an amount in    *)
(* Maxwell (integer) and its display form in MASS (string, 8 decimals).    *)
(*                                                                         *)
(* Representation.  TLC's integers are 32-bit and its strings are atoms,   *)
(* so                                                                      *)
(*   - a STRING is a sequence of byte values 0..255 ("1.05" = <<49,46,48,  *)
(*     53>>), exactly the bytes handed to / returned by the Go functions;  *)
(*   - a NATURAL NUMBER is a sequence of decimal digits 0..9, most         *)
(*     significant first, canonical = no leading zero, zero = <<0>>.       *)
(* "Value times 10^8" is therefore stated positionally (shift by eight     *)
(* digits), which is its definition in decimal notation; no arithmetic on  *)
(* big numbers is needed except comparison and +-1.                        *)
(*                                                                         *)
(* What the statement fixes, and how it is read here:                      *)
(*                                                                         *)
(*  FORMAT  For 0 <= m <= MaxAmount the result is Canonical(m): integer    *)
(*          part without leading zeros ("0" if empty), and - only if the   *)
(*          fraction is non-zero - "." and the 8-digit fraction without    *)
(*          trailing zeros.  That this is THE shortest plain decimal of    *)
(*          m / 10^8 is checked by TLC (ShortestOK in AmountGen).          *)
(*          Outside [0, MaxAmount] the statement is silent: DON'T-CARE     *)
(*          between an error and the exact (signed) decimal; any other     *)
(*          string would be a wrong conversion.                            *)
(*  ROUND   Parse(Format(m)) = m for 0 <= m <= MaxAmount.                  *)
(*  PARSE   three classes, Class(s):                                       *)
(*    "accept"   MUST-ACCEPT with value Scaled(s): digits+ [ "." digits+ ] *)
(*               with at most 8 fractional digits after dropping trailing  *)
(*               zeros ("significant"), value <= MaxAmount.  Leading zeros *)
(*               and trailing fractional zeros are plain decimal notation. *)
(*    "reject"   MUST-REJECT: any byte that is neither a digit nor the one *)
(*               decimal point (sign anywhere, exponent, separator, space, *)
(*               other byte, second point), more than 8 significant        *)
(*               fractional digits, value > MaxAmount.  Why(s) names the   *)
(*               first reason (only for coverage bookkeeping).             *)
(*    "dontcare" the statement does not settle numerals with an EMPTY      *)
(*               integer or fractional part: "", ".", ".5", "5." (the      *)
(*               repository's own table test expects them accepted).       *)
(*               Either outcome is allowed, but an accepted one must carry *)
(*               the value of the numeral with the empty part read as 0 -  *)
(*               anything else is guessing.  Precision and supply limits   *)
(*               apply to them as well (they are MUST-REJECT then).        *)
(*  Error messages and error kinds are not compared (the statement speaks  *)
(*  of rejecting, not of how).  A panic is never a rejection.              *)
(***************************************************************************)
EXTENDS Naturals, Sequences, FiniteSets

Scale == 8                                   \* decimals: 1 MASS = 10^8 Maxwell
MaxMassDigits == <<2, 0, 6, 4, 3, 8, 4, 0, 0>>   \* consensus.MaxMass = 206438400 (mass-core params.go)

Zeros(n) == [i \in 1..n |-> 0]
UnitDigits == <<1>> \o Zeros(Scale)          \* consensus.MaxwellPerMass
MaxAmountDigits == MaxMassDigits \o Zeros(Scale)   \* massutil.MaxAmount() = MaxMass * 10^8

Min(S) == CHOOSE x \in S : \A y \in S : x <= y
Max(S) == CHOOSE x \in S : \A y \in S : x >= y

-----------------------------------------------------------------------------
(* naturals as digit sequences *)

IsDigits(d) == \A i \in 1..Len(d) : d[i] \in 0..9
IsCanon(d)  == Len(d) >= 1 /\ IsDigits(d) /\ (Len(d) > 1 => d[1] # 0)

StripLeft(d)  == LET nz == {i \in 1..Len(d) : d[i] # 0}
                 IN  IF nz = {} THEN <<>> ELSE SubSeq(d, Min(nz), Len(d))
StripRight(d) == LET nz == {i \in 1..Len(d) : d[i] # 0}
                 IN  IF nz = {} THEN <<>> ELSE SubSeq(d, 1, Max(nz))
Norm(d) == IF StripLeft(d) = <<>> THEN <<0>> ELSE StripLeft(d)

\* a <= b for canonical a, b
Le(a, b) == \/ Len(a) < Len(b)
            \/ /\ Len(a) = Len(b)
               /\ \/ a = b
                  \/ LET k == Min({i \in 1..Len(a) : a[i] # b[i]}) IN a[k] < b[k]

\* successor / predecessor of a canonical natural
Inc(d) == LET n9 == {i \in 1..Len(d) : d[i] # 9}
          IN  IF n9 = {} THEN <<1>> \o Zeros(Len(d))
              ELSE LET k == Max(n9)
                   IN  [i \in 1..Len(d) |-> IF i < k THEN d[i] ELSE IF i = k THEN d[k] + 1 ELSE 0]
Dec(d) == LET k == Max({i \in 1..Len(d) : d[i] # 0})      \* d # <<0>>
          IN  Norm([i \in 1..Len(d) |-> IF i < k THEN d[i] ELSE IF i = k THEN d[k] - 1 ELSE 9])

\* small naturals (TLC integers) to digits, for generators and sanity checks
RECURSIVE NatDigits(_)
NatDigits(n) == IF n < 10 THEN <<n>> ELSE Append(NatDigits(n \div 10), n % 10)

-----------------------------------------------------------------------------
(* characters *)

CDot == 46   CPlus == 43   CMinus == 45   CZero == 48
IsDigitCh(c) == c >= 48 /\ c <= 57
Chars(d)  == [i \in 1..Len(d) |-> d[i] + 48]       \* digits -> their ASCII bytes
Digits(s) == [i \in 1..Len(s) |-> s[i] - 48]       \* ASCII digit bytes -> digits

CharKind(c) == CASE IsDigitCh(c)                   -> "digit"
                 [] c = CDot                       -> "dot"
                 [] c \in {CPlus, CMinus}          -> "sign"
                 [] c \in {101, 69}                -> "exponent"      \* e E
                 [] c \in {95, 44, 39}             -> "separator"     \* _ , '
                 [] c \in {32, 9, 10, 11, 12, 13}  -> "space"
                 [] OTHER                          -> "byte"

-----------------------------------------------------------------------------
(* PARSE *)

DotsOf(s) == {i \in 1..Len(s) : s[i] = CDot}
\* "loose numeral": digits* [ "." digits* ]
Loose(s)  == /\ \A i \in 1..Len(s) : IsDigitCh(s[i]) \/ s[i] = CDot
             /\ Cardinality(DotsOf(s)) <= 1
HasDot(s)   == DotsOf(s) # {}
DotAt(s)    == Min(DotsOf(s))
IntPart(s)  == IF HasDot(s) THEN SubSeq(s, 1, DotAt(s) - 1) ELSE s
FracPart(s) == IF HasDot(s) THEN SubSeq(s, DotAt(s) + 1, Len(s)) ELSE <<>>
\* plain decimal numeral: digits+ [ "." digits+ ]
Strict(s)   == Loose(s) /\ IntPart(s) # <<>> /\ (HasDot(s) => FracPart(s) # <<>>)

\* significant fractional digits (trailing zeros dropped); only for Loose(s)
SigFrac(s) == StripRight(Digits(FracPart(s)))
\* value(s) * 10^8 as a canonical natural; only for Loose(s) with Len(SigFrac(s)) <= Scale
Scaled(s)  == Norm(Digits(IntPart(s)) \o SigFrac(s) \o Zeros(Scale - Len(SigFrac(s))))

Class(s) == IF ~Loose(s)                           THEN "reject"
            ELSE IF Len(SigFrac(s)) > Scale        THEN "reject"
            ELSE IF ~Le(Scaled(s), MaxAmountDigits) THEN "reject"
            ELSE IF Strict(s)                      THEN "accept"
            ELSE "dontcare"

\* first reason of a rejection / sub-class, for coverage bookkeeping only
Why(s) == LET bad == {i \in 1..Len(s) : ~IsDigitCh(s[i]) /\ s[i] # CDot}
          IN  IF bad # {} THEN CharKind(s[Min(bad)])
              ELSE IF Cardinality(DotsOf(s)) > 1 THEN "dots"
              ELSE IF Len(SigFrac(s)) > Scale THEN "precision"
              ELSE IF ~Le(Scaled(s), MaxAmountDigits) THEN "overflow"
              ELSE IF Strict(s) THEN "numeral"
              ELSE "empty-part"

\* result r = [ok |-> BOOLEAN, val |-> digits, panic |-> BOOLEAN] of a parser on s : set of violated clauses
ParseDeviations(s, r) ==
    IF r.panic THEN {"panic"}
    ELSE CASE Class(s) = "accept"   -> IF ~r.ok THEN {"must-accept-rejected"}
                                       ELSE IF r.val # Scaled(s) THEN {"wrong-value"} ELSE {}
           [] Class(s) = "reject"   -> IF r.ok THEN {"must-reject-accepted"} ELSE {}
           [] Class(s) = "dontcare" -> IF r.ok /\ r.val # Scaled(s) THEN {"wrong-value"} ELSE {}

-----------------------------------------------------------------------------
(* The CLI's parser (cmd_binding.go, stringToAmount) reads the server's     *)
(* display form "<amount> MASS": it removes a trailing "MASS" and then      *)
(* surrounding white space before parsing.  On every string that this       *)
(* preprocessing cannot touch (CliPlain) it is held to the PARSE property   *)
(* unchanged.  On decorated strings the statement is read as DON'T-CARE     *)
(* about acceptance, but an accepted value must be that of the undecorated  *)
(* core; strings with non-ASCII bytes at the ends are left open entirely    *)
(* (Go trims Unicode white space there).                                    *)

Graphic(c) == c >= 33 /\ c <= 126
AsciiWS == {9, 10, 11, 12, 13, 32}
CliPlain(s) == s = <<>> \/ (Graphic(s[1]) /\ Graphic(s[Len(s)]) /\ s[Len(s)] # 83)   \* 83 = "S"
AllAscii(s) == \A i \in 1..Len(s) : s[i] < 128
DropUnit(s) == IF Len(s) >= 4 /\ SubSeq(s, Len(s) - 3, Len(s)) = <<77, 65, 83, 83>>
               THEN SubSeq(s, 1, Len(s) - 4) ELSE s
TrimWS(s) == LET keep == {i \in 1..Len(s) : s[i] \notin AsciiWS}
             IN  IF keep = {} THEN <<>> ELSE SubSeq(s, Min(keep), Max(keep))
CliCore(s) == TrimWS(DropUnit(s))

CliDeviations(s, r) ==
    IF CliPlain(s) THEN ParseDeviations(s, r)
    ELSE IF r.panic THEN {"panic"}
    ELSE IF ~AllAscii(s) \/ ~r.ok THEN {}
    ELSE IF Class(CliCore(s)) = "reject" THEN {"must-reject-accepted"}
    ELSE IF r.val # Scaled(CliCore(s)) THEN {"wrong-value"} ELSE {}

-----------------------------------------------------------------------------
(* FORMAT *)

\* shortest plain decimal of m / 10^8 for a canonical natural m
Canonical(m) == LET p  == IF Len(m) <= Scale THEN Zeros(Scale + 1 - Len(m)) \o m ELSE m
                    ip == SubSeq(p, 1, Len(p) - Scale)
                    fp == StripRight(SubSeq(p, Len(p) - Scale + 1, Len(p)))
                IN  Chars(ip) \o (IF fp = <<>> THEN <<>> ELSE <<CDot>> \o Chars(fp))

InRange(neg, m) == ~neg /\ Le(m, MaxAmountDigits)

\* r = [ok, out (bytes), panic] of a formatter on the integer (neg, m)
FormatDeviations(neg, m, r) ==
    IF r.panic THEN {"panic"}
    ELSE IF InRange(neg, m)
         THEN IF ~r.ok THEN {"in-range-rejected"}
              ELSE IF r.out # Canonical(m) THEN {"not-canonical"} ELSE {}
         ELSE IF r.ok /\ r.out # (IF neg THEN <<CMinus>> ELSE <<>>) \o Canonical(m)
              THEN {"out-of-range-wrong-string"} ELSE {}

\* rt = result of the parser on the formatter's own output
RoundTripDeviations(neg, m, fmtOk, rt) ==
    IF InRange(neg, m) /\ fmtOk /\ (rt.panic \/ ~rt.ok \/ rt.val # m) THEN {"round-trip"} ELSE {}

-----------------------------------------------------------------------------
(* Known finding K-C15-1 (machine-checkable classifier).                    *)
(* The unchanged parser hands each part to strconv.ParseInt, which takes a  *)
(* leading sign: it tolerates ONE sign character in front of the integer    *)
(* part (after leading zeros) and ONE directly after the point, "-" only if *)
(* every digit after it in that part is 0.  The accepted value is that of   *)
(* the string with the integer sign deleted and the fractional sign read as *)
(* the digit 0 ("1.+5" = 1.05, "-0.5" = 0.5, "00+7" = 7, "1.-" = 1).       *)
(* Exactly these acceptances are the recorded finding; a sign accepted in   *)
(* any other place, or with any other value, is a new violation.            *)

SignsOf(s) == {i \in 1..Len(s) : s[i] \in {CPlus, CMinus}}
IntSlot(s, p)  == /\ \A j \in 1..(p - 1) : s[j] = CZero
                  /\ (HasDot(s) => p < DotAt(s))
FracSlot(s, p) == HasDot(s) /\ p = DotAt(s) + 1
PartEnd(s, p)  == IF HasDot(s) /\ p < DotAt(s) THEN DotAt(s) - 1 ELSE Len(s)
MinusOnZero(s, p) == s[p] = CMinus => \A j \in (p + 1)..PartEnd(s, p) : s[j] = CZero
\* the sign-blind reading
Unsign(s) == LET keep == {i \in 1..Len(s) : ~(s[i] \in {CPlus, CMinus} /\ ~FracSlot(s, i))}
                 f == [i \in 1..Len(s) |-> IF s[i] \in {CPlus, CMinus} THEN CZero ELSE s[i]]
             IN  [k \in 1..Cardinality(keep) |->
                     f[CHOOSE i \in keep : Cardinality({j \in keep : j <= i}) = k]]
KnownSignTolerated(s, r) ==
    /\ r.ok /\ ~r.panic
    /\ SignsOf(s) # {}
    /\ Cardinality(DotsOf(s)) <= 1
    /\ \A p \in SignsOf(s) : (IntSlot(s, p) \/ FracSlot(s, p)) /\ MinusOnZero(s, p)
    /\ LET t == Unsign(s)
       IN  /\ Loose(t)
           /\ Class(t) \in {"accept", "dontcare"}
           /\ r.val = Scaled(t)

-----------------------------------------------------------------------------
(* The specification's own examples (evaluated by TLC whenever the module   *)
(* is loaded): the literals of the statement and of the repository's table  *)
(* tests.                                                                   *)

S1_05 == <<49, 46, 48, 53>>                         \* "1.05"
ASSUME Class(S1_05) = "accept" /\ Scaled(S1_05) = <<1, 0, 5, 0, 0, 0, 0, 0, 0>>
ASSUME Canonical(<<1, 0, 5, 0, 0, 0, 0, 0, 0>>) = S1_05
ASSUME Canonical(<<0>>) = <<48>> /\ Canonical(<<1>>) = <<48, 46, 48, 48, 48, 48, 48, 48, 48, 49>>
ASSUME Canonical(<<1, 2, 3, 4, 5, 0>>) = <<48, 46, 48, 48, 49, 50, 51, 52, 53>>   \* 123450 -> "0.0012345"
ASSUME Canonical(MaxAmountDigits) = Chars(MaxMassDigits)
ASSUME Class(<<49, 46, 43, 53>>) = "reject" /\ Why(<<49, 46, 43, 53>>) = "sign"       \* "1.+5"
ASSUME Class(<<43, 49>>) = "reject" /\ Class(<<45, 48>>) = "reject"                   \* "+1" "-0"
ASSUME Class(<<49, 101, 53>>) = "reject" /\ Why(<<49, 101, 53>>) = "exponent"         \* "1e5"
ASSUME Class(<<49, 95, 48>>) = "reject" /\ Class(<<49, 32>>) = "reject"               \* "1_0" "1 "
ASSUME Class(<<49, 46, 48, 46>>) = "reject" /\ Why(<<49, 46, 48, 46>>) = "dots"       \* "1.0."
ASSUME \A s \in {<<>>, <<46>>, <<46, 53>>, <<53, 46>>} : Class(s) = "dontcare"        \* "" "." ".5" "5."
ASSUME Scaled(<<46, 53>>) = <<5, 0, 0, 0, 0, 0, 0, 0>> /\ Scaled(<<>>) = <<0>>
ASSUME Class(<<48, 46>> \o Chars(Zeros(8)) \o <<49>>) = "reject"                      \* "0.000000001"
ASSUME Class(<<49, 46>> \o Chars(Zeros(12))) = "accept"                               \* "1.000000000000"
ASSUME Class(<<48, 48, 55>>) = "accept" /\ Scaled(<<48, 48, 55>>) = <<7>> \o Zeros(8) \* "007"
ASSUME Class(Chars(MaxMassDigits) \o <<46>> \o Chars(Zeros(8))) = "accept"
ASSUME Class(Chars(MaxMassDigits) \o <<46>> \o Chars(Zeros(7)) \o <<49>>) = "reject"
ASSUME Class(Chars(Inc(MaxMassDigits))) = "reject" /\ Why(Chars(Inc(MaxMassDigits))) = "overflow"
ASSUME Inc(<<9, 9>>) = <<1, 0, 0>> /\ Dec(<<1, 0, 0>>) = <<9, 9>> /\ Dec(<<1>>) = <<0>> /\ Inc(<<0>>) = <<1>>
ASSUME NatDigits(0) = <<0>> /\ NatDigits(1050) = <<1, 0, 5, 0>>
ASSUME Unsign(<<49, 46, 43, 53>>) = S1_05 /\ Unsign(<<48, 43, 55>>) = <<48, 55>>
ASSUME KnownSignTolerated(<<49, 46, 43, 53>>, [ok |-> TRUE, panic |-> FALSE, val |-> <<1, 0, 5, 0, 0, 0, 0, 0, 0>>])
ASSUME ~KnownSignTolerated(<<49, 46, 43, 53>>, [ok |-> TRUE, panic |-> FALSE, val |-> <<1, 5, 0, 0, 0, 0, 0, 0, 0>>])
ASSUME ~KnownSignTolerated(<<45, 53>>, [ok |-> TRUE, panic |-> FALSE, val |-> <<5>> \o Zeros(8)])   \* "-5" as 5: not the recorded finding
ASSUME CliPlain(S1_05) /\ ~CliPlain(<<49, 32, 77, 65, 83, 83>>) /\ CliCore(<<49, 32, 77, 65, 83, 83>>) = <<49>>
=============================================================================
