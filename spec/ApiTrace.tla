------------------------------ MODULE ApiTrace ------------------------------
(***************************************************************************)
(* Trace specification for C19: TLC judges every line that harness/cmd/api *)
(* recorded from the implementation.  Line kinds:                          *)
(*   call    [state, m, sh, via, outcome, class, pre, post, haspost]       *)
(*           outcome: returned | panicked | died | hung | timeout |        *)
(*                    unsendable | skipped                                 *)
(*   event   [state, ev, rel, sh, e: [outcome, synced, tip, aftersynced,   *)
(*           aftertip]]      outcome: processed | stalled | died | hung |  *)
(*                                    undeliverable                        *)
(*   start   [sh, s: [outcome, alive, worker]]   outcome: started |        *)
(*                                    refused | died | hung                *)
(*   marker  [state, k: [alive, workerok]]   the block delivered after the *)
(*           calls of a child process, and the draining of its task queue  *)
(* A call line is a step of the state machine of Api.tla iff               *)
(*   outcome = returned /\ ClassOK(pre, m, sh, class) /\ PostOK(.. post)   *)
(* (unsendable: the protobuf wire format cannot carry the request, e.g. a  *)
(* nil element of a repeated field - no client can send it; skipped: the   *)
(* shape has no concretisation in the observed state, which only happens   *)
(* for shapes that need w1 selected).                                      *)
(*                                                                         *)
(* Lines are independent (each carries the wallet state observed before    *)
(* and after), so the index is walked as a binary heap and TLC's workers   *)
(* share the work.  Judged(i) is the set of deviations of line i, each     *)
(* tagged with the known finding that explains it (or "").                 *)
(* StrictMode = TRUE : Conforms is an invariant TLC stops on at the first  *)
(*                     deviation no enabled known finding explains.        *)
(* StrictMode = FALSE: every deviation is printed and TLC goes on.         *)
(***************************************************************************)
EXTENDS Api, Json

CONSTANTS TraceFile, KnownEnabled, StrictMode

Trace == ndJsonDeserialize(TraceFile)
N == Len(Trace)

VARIABLE i
vars == <<i>>
Init == i = 1
Next == \E j \in {2 * i, 2 * i + 1} : j <= N /\ i' = j
Spec == Init /\ [][Next]_vars

Dev(n, clause, known) == [line |-> n, clause |-> clause, known |-> known]

\* ---- classifiers of the known findings (known_findings.jsonl quotes these operators)
Unanswered(l) == l.outcome \in {"panicked", "died", "hung", "timeout"}
\* K-C19-1: the block of a PENDING (unmined) previous output is dereferenced: signing a transaction one of whose
\* inputs is an output of a pending wallet transaction; naming a pending BINDING output as a manual input
KnownSignPending(l) == /\ \/ l.m = "SignRawTransaction" /\ l.sh \in {"tx=ppout", "tx=ppbind"}
                          \/ l.m = "CreateRawTransaction" /\ l.sh = "in=ppbind"
                       /\ l.pre.coins = "pending" /\ l.pre.sel = "w1" /\ l.outcome \in {"panicked", "died"}
\* K-C19-2: manual transaction / fee estimate naming an output index a PENDING wallet transaction does not have
KnownPendingVout(l) == l.m \in {"CreateRawTransaction"} /\ l.sh = "in=ppoor" /\ l.pre.coins = "pending"
                       /\ l.pre.sel = "w1" /\ l.outcome \in {"panicked", "died"}
\* K-C19-3: an address string "ms1" + ONE data character + checksum, in any address-valued field
Bech1Shapes == {d \o "=bech1" : d \in {"addr", "to", "bto", "from", "change", "staking", "holder", "target"}}
KnownBech1(l) == l.sh \in Bech1Shapes /\ l.outcome \in {"panicked", "died"}
\* K-C19-4: wallet restore with a huge derivation index is not answered within the caller's patience
KnownBigIndex(l) == /\ \/ l.m = "ImportMnemonic" /\ l.sh \in {"ext=big", "int=big"}
                       \/ l.m = "ImportWallet" /\ l.sh = "ks=bigindex"
                    /\ l.outcome \in {"timeout", "hung"}
\* K-C19-5: the worker's start-up read fails
KnownWorkerStart(l) == l.sh = "worker-read-fails" /\ l.s.outcome = "died"

KnownCall(l) ==
    CASE "K-C19-1" \in KnownEnabled /\ KnownSignPending(l) -> "K-C19-1"
      [] "K-C19-2" \in KnownEnabled /\ KnownPendingVout(l) -> "K-C19-2"
      [] "K-C19-3" \in KnownEnabled /\ KnownBech1(l)       -> "K-C19-3"
      [] "K-C19-4" \in KnownEnabled /\ KnownBigIndex(l)    -> "K-C19-4"
      [] OTHER -> ""

\* ---- judgement
JudgeCall(n, l) ==
    IF RuleOf(l.m, l.sh) = "undefined" THEN {Dev(n, "harness:unknown-case", "")}
    ELSE IF ~(l.pre \in AbsState) THEN {Dev(n, "harness:pre-state-outside-model", "")}
    ELSE CASE l.outcome = "unsendable" -> {}
           [] l.outcome = "skipped" ->
                 IF l.pre.sel # "w1" \/ l.sh \in EvShapes THEN {} ELSE {Dev(n, "harness:skipped-with-w1-selected", "")}
           [] Unanswered(l) -> {Dev(n, "unanswered:" \o l.outcome, KnownCall(l))}
           [] l.outcome = "returned" ->
                 (IF ClassOK(l.pre, l.m, l.sh, l.class) THEN {} ELSE {Dev(n, "class", "")})
                 \cup (IF ~l.haspost THEN {Dev(n, "harness:no-post-state", "")}
                       ELSE IF ~(l.post \in AbsState) THEN {Dev(n, "harness:post-state-outside-model", "")}
                       ELSE IF PostOK(l.pre, l.m, l.sh, l.class, l.post) THEN {} ELSE {Dev(n, "model:post-state", "")})
           [] OTHER -> {Dev(n, "harness:unknown-outcome", "")}

JudgeEvent(n, l) ==
    IF ~(l.sh \in ScriptShapes /\ l.ev \in EventKinds /\ l.rel \in Relevance) THEN {Dev(n, "harness:unknown-case", "")}
    ELSE IF EventOK(l.e) THEN {} ELSE {Dev(n, "event:" \o l.e.outcome, "")}

JudgeStart(n, l) ==
    IF l.sh \notin StartShapes THEN {Dev(n, "harness:unknown-case", "")}
    ELSE IF StartOK(l.s) THEN {}
    ELSE {Dev(n, "start:" \o l.s.outcome, IF "K-C19-5" \in KnownEnabled /\ KnownWorkerStart(l) THEN "K-C19-5" ELSE "")}

JudgeMarker(n, l) == IF MarkerOK(l.k) THEN {} ELSE {Dev(n, IF l.k.alive THEN "marker:worker" ELSE "marker:follower", "")}

Judged(n) == LET l == Trace[n]
             IN CASE l.kind = "call"   -> JudgeCall(n, l)
                  [] l.kind = "event"  -> JudgeEvent(n, l)
                  [] l.kind = "start"  -> JudgeStart(n, l)
                  [] l.kind = "marker" -> JudgeMarker(n, l)
                  [] OTHER -> {Dev(n, "harness:unknown-line-kind", "")}

Conforms ==
    LET devs == Judged(i)
    IN  /\ \A dv \in devs : PrintT(<<"DEVIATION", ToJson(dv)>>)
        /\ StrictMode => \A dv \in devs : dv.known # ""
=============================================================================
