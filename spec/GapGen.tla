------------------------------- MODULE GapGen -------------------------------
(* Behaviours of Gap.tla as histories for replay on the real keystore, wallet *)
(* manager and chain (harness/replay/gap.go).  Every entry carries what the   *)
(* specification expects to be observable after the step:                     *)
(*   next   durable next child number          cls   classes of issued indexes *)
(*   used   issued indexes with a payment on the best chain                   *)
(* Issue entries say whether the request is granted; Restore entries carry    *)
(* the next child number the scan must arrive at and the funded indexes it    *)
(* misses (non-empty only after a reorganisation took history away).          *)
EXTENDS Gap, Json

CONSTANTS GenLen,     \* history length
          Script,     \* <<>>: free; else the sequence of steps to follow, e.g. <<[a |-> "Issue", c |-> "std"], [a |-> "Pay", i |-> 0], ...>>
          GenWant,    \* "": every history; "miss": only histories in which a restore leaves a funded address behind;
                      \* "stale": see WantedStale;
                      \* "edge": only histories that end with two funded indexes exactly G apart
          GenRandom   \* TRUE (simulation): one random instance per action kind, so kinds are drawn evenly
VARIABLE hist
gvars == <<vars, hist>>

SetToSeq(S) == LET RECURSIVE f(_) 
                   f(T) == IF T = {} THEN <<>> ELSE LET m == CHOOSE x \in T : \A y \in T : x <= y IN <<m>> \o f(T \ {m})
               IN f(S)
Exp == [next |-> Len(cls'), cls |-> cls', used |-> SetToSeq({i \in 0..(Len(cls') - 1) : \E h \in 1..Len(chain') : chain'[h] = i}),
        height |-> Len(chain')]
Rec(r) == hist' = Append(hist, r @@ [exp |-> Exp])

Live == Len(hist) < GenLen
Free == Script = <<>>
At == Script[Len(hist) + 1]
Is(a) == ~Free /\ Len(hist) < Len(Script) /\ At.a = a

GIssue(c) == /\ Live
             /\ \/ Issue(c) /\ Rec([a |-> "Issue", c |-> c, ok |-> TRUE, idx |-> Next_])
                \/ Refused /\ Rec([a |-> "Issue", c |-> c, ok |-> FALSE, idx |-> Next_])
GPay(i) == Live /\ Pay(i) /\ Rec([a |-> "Pay", i |-> i])
GReorg(d, k) == Live /\ Reorg(d, k) /\ Rec([a |-> "Reorg", d |-> d, keep |-> k])
GRestart == Live /\ Restart /\ Rec([a |-> "Restart"])
GRestore(h) == /\ Live /\ UNCHANGED vars
               /\ Rec([a |-> "Restore", h |-> h, rnext |-> RestoredNext(h),
                       missed |-> SetToSeq(UsedSet \ Restored(h))])

Seq2 == UNION {[1..n -> -1..MaxIssue] : n \in 0..MaxReorg}
\* the last step of a free history: one restore per hint, all from the same state
GRestoreAll == /\ Live /\ UNCHANGED vars
               /\ Rec([a |-> "RestoreAll",
                       rs |-> [k \in 1..Cardinality(Hints) |->
                                 LET h == SetToSeq(Hints)[k] IN
                                 [h |-> h, rnext |-> RestoredNext(h), missed |-> SetToSeq(UsedSet \ Restored(h))]]])
NoScript == <<>>
GenInit == Init /\ hist = <<>>
Pick(S) == IF GenRandom /\ S # {} THEN {RandomElement(S)} ELSE S
FreeNext == \/ \E c \in Pick({"std", "stk"}) : GIssue(c)
            \/ \E c \in Pick({"std", "stk"}) : GIssue(c)      \* (twice: issuing is what drives the rule)
            \/ \E i \in Pick(-1..(Next_ - 1)) : GPay(i)
            \/ \E i \in Pick((Next_ - G)..(Next_ - 1)) : GPay(i)
            \/ \E dk \in Pick({x \in (1..MaxReorg) \X Seq2 : x[1] <= Len(chain) /\ x[2] \in SubSeqs(Removed(x[1]))}) : GReorg(dk[1], dk[2])
            \/ GRestart
            \/ \E h \in Pick(Hints) : GRestore(h)
ScriptNext == \/ Is("Issue") /\ GIssue(At.c)
              \/ Is("Pay") /\ GPay(At.i)
              \/ Is("Reorg") /\ GReorg(At.d, At.keep)
              \/ Is("Restart") /\ GRestart
              \/ Is("Restore") /\ GRestore(At.h)
GenNext == IF Free THEN (IF Len(hist) = GenLen - 1 THEN GRestoreAll ELSE FreeNext) ELSE ScriptNext
GenSpec == GenInit /\ [][GenNext]_gvars

Wanted == \/ GenWant = ""
          \/ GenWant = "miss" /\ \E k \in 1..Len(hist) :
                  \/ hist[k].a = "Restore" /\ hist[k].missed # <<>>
                  \/ hist[k].a = "RestoreAll" /\ \E j \in 1..Len(hist[k].rs) : hist[k].rs[j].missed # <<>>
\* "edge": two funded indexes exactly G apart with nothing funded between them - the longest gap the issue
\* rule permits, i.e. the last index the restore scan must still reach
WantedEdge == GenWant = "edge" /\ \E i, j \in UsedSet : j - i = G /\ \A k \in UsedSet : ~(i < k /\ k < j)
\* "stale": a request is refused after a reorganisation took history away, with an address issued while that history
\* was still there and no restart in between (an answer "used" remembered from before the reorganisation would grant it)
WantedStale == GenWant = "stale" /\ \E j, k \in 1..Len(hist) :
                   /\ j < k /\ hist[j].a = "Reorg" /\ hist[k].a = "Issue" /\ ~hist[k].ok
                   /\ \A m \in (j + 1)..(k - 1) : hist[m].a # "Restart"
                   /\ \E i \in 1..(j - 1) : hist[i].a = "Issue" /\ hist[i].ok /\ \E p \in 1..(i - 1) : hist[p].a = "Pay" /\ hist[p].i >= 0
                                              /\ \A m \in (i + 1)..(j - 1) : hist[m].a # "Restart"
Emit == (Len(hist) = GenLen /\ (Wanted \/ WantedEdge \/ WantedStale)) => PrintT(<<"HIST", ToJson([g |-> G, steps |-> hist])>>)
=============================================================================
