------------------------------- MODULE Bip32 -------------------------------
(***************************************************************************)
(* C14 - hierarchical key derivation is exactly BIP-32.                    *)
(*                                                                         *)
(* Byte-level, functional specification of BIP-32 extended keys:           *)
(*   master key generation, CKDpriv, CKDpub, neutering (N), the 78-byte    *)
(*   serialisation with its 4-byte checksum, key identifiers/fingerprints  *)
(*   and the rules for importing (parsing) a serialised key.               *)
(*                                                                         *)
(* What the specification OWNS (stated here, evaluated by TLC):            *)
(*   ser32, the Data string fed to HMAC (0x00 || ser256(k) || ser32(i) for *)
(*   hardened, serP(K) || ser32(i) otherwise), the IL/IR split, the        *)
(*   comparison of IL and of imported private keys with the group order n  *)
(*   and of imported x coordinates with the field prime p, k_i = IL + k    *)
(*   (mod n) as schoolbook arithmetic on 32-byte sequences, the            *)
(*   invalid-child rules, the depth rule, hardened-from-public, field      *)
(*   order and widths of the serialisation, fingerprint = first 4 bytes    *)
(*   of the identifier, and the classification of every input string of    *)
(*   the parser into MUST-ACCEPT / MUST-REJECT / DON'T-CARE.               *)
(*                                                                         *)
(* What is TRUSTED (uninterpreted here): HMAC-SHA512, point(k) = k*G,      *)
(*   point(IL)+K, "x is the abscissa of a curve point", RIPEMD160(SHA256), *)
(*   SHA256(SHA256), base-58 encode/decode.  Every trace line carries the  *)
(*   graph of these functions on the arguments the specification asks for  *)
(*   ("or", a list of question/answer records produced by the harness with *)
(*   the Go standard library, x/crypto/ripemd160 and btcec).  The          *)
(*   specification forms each question itself (Ask); a question that the   *)
(*   harness did not answer stops TLC (inconclusive, never a pass).        *)
(*                                                                         *)
(* Verdict(line) is what TLC evaluates for every line of a recorded trace  *)
(* of the real implementation (module Bip32Trace).                         *)
(***************************************************************************)
EXTENDS Naturals, Sequences, TLC

---------------------------------------------------------------------------
(* byte sequences                                                          *)

Zeros(n) == [j \in 1..n |-> 0]
IsZero(s) == \A j \in 1..Len(s) : s[j] = 0
IsBytes(s) == \A j \in 1..Len(s) : s[j] \in 0..255

MinOf(S) == CHOOSE j \in S : \A k \in S : j <= k

LeadingZeros(s) == LET nz == {j \in 1..Len(s) : s[j] # 0}
                   IN IF nz = {} THEN Len(s) ELSE MinOf(nz) - 1

\* big-endian comparison of two sequences of the same length
Lt(a, b) == LET d == {j \in 1..Len(a) : a[j] # b[j]}
            IN d # {} /\ a[MinOf(d)] < b[MinOf(d)]
Geq(a, b) == ~Lt(a, b)

\* a + b on equal-length big-endian sequences: <<carry, digits>>
RECURSIVE AddFrom(_, _, _)
AddFrom(a, b, j) ==
    IF j > Len(a) THEN <<0, <<>>>>
    ELSE LET r == AddFrom(a, b, j + 1)
             s == a[j] + b[j] + r[1]
         IN <<s \div 256, <<s % 256>> \o r[2]>>

\* a - b for a >= b (equal length): <<borrow, digits>>
RECURSIVE SubFrom(_, _, _)
SubFrom(a, b, j) ==
    IF j > Len(a) THEN <<0, <<>>>>
    ELSE LET r == SubFrom(a, b, j + 1)
             s == 256 + a[j] - b[j] - r[1]
         IN <<1 - (s \div 256), <<s % 256>> \o r[2]>>

\* secp256k1: group order n and field prime p (cross-checked against btcec by the "const" trace line)
NOrder == <<255,255,255,255, 255,255,255,255, 255,255,255,255, 255,255,255,254,
            186,174,220,230, 175, 72,160, 59, 191,210, 94,140, 208, 54, 65, 65>>
PField == <<255,255,255,255, 255,255,255,255, 255,255,255,255, 255,255,255,255,
            255,255,255,255, 255,255,255,255, 255,255,255,254, 255,255,252, 47>>

\* (a + b) mod n for a, b < n, on 32-byte sequences
AddModN(a, b) ==
    LET r == AddFrom(a, b, 1)
        wide == <<r[1]>> \o r[2]                       \* 33 bytes
    IN IF r[1] = 1 \/ Geq(r[2], NOrder)
       THEN Tail(SubFrom(wide, <<0>> \o NOrder, 1)[2])
       ELSE r[2]

\* child numbers are records [hard, n] with n < 2^31 (TLC integers are 32 bit)
Ser32(i) == << (i.n \div 16777216) + (IF i.hard THEN 128 ELSE 0),
               (i.n \div 65536) % 256, (i.n \div 256) % 256, i.n % 256 >>
Unser32(b) == [hard |-> b[1] >= 128,
               n |-> (b[1] % 128) * 16777216 + b[2] * 65536 + b[3] * 256 + b[4]]

---------------------------------------------------------------------------
(* the trusted primitives: answers are looked up in the line's oracle list *)
(* each entry: [f, in (sequence of byte sequences), sin (string), ok,      *)
(*              out (byte sequence), sout (string)]                        *)

Ask(or, f, in, sin) ==
    LET S == {j \in 1..Len(or) : or[j].f = f /\ or[j].in = in /\ or[j].sin = sin}
        have == Assert(S # {}, <<"C14 harness did not answer the oracle question", f, in, sin>>)
    IN IF have THEN or[MinOf(S)] ELSE or[1]

\* the list must be the graph of functions
OracleFunctional(or) ==
    \A a, b \in 1..Len(or) :
        (or[a].f = or[b].f /\ or[a].in = or[b].in /\ or[a].sin = or[b].sin)
            => (or[a].ok = or[b].ok /\ or[a].out = or[b].out /\ or[a].sout = or[b].sout)

HMAC(or, key, data) == Ask(or, "hmac-sha512", <<key, data>>, "").out     \* 64 bytes
Point(or, k)        == Ask(or, "point", <<k>>, "").out                    \* serP(k*G), 33 bytes
PointAdd(or, il, K) == Ask(or, "point-add", <<il, K>>, "")                \* ok=FALSE: point at infinity
Hash160(or, x)      == Ask(or, "hash160", <<x>>, "").out                  \* 20 bytes
Sha256d(or, x)      == Ask(or, "sha256d", <<x>>, "").out                  \* 32 bytes
Liftable(or, x)     == Ask(or, "liftable-x", <<x>>, "").ok                \* x < p assumed: x^3+7 is a square mod p
B58Enc(or, b)       == Ask(or, "base58-encode", <<b>>, "").sout
B58Dec(or, s)       == Ask(or, "base58-decode", <<>>, s)                  \* ok=FALSE: not a base-58 string

---------------------------------------------------------------------------
(* extended keys                                                           *)
(* [ver: 4 bytes, depth: 0..255, fp: 4 bytes, num: [hard, n], cc: 32 bytes,*)
(*  priv: BOOLEAN, key: 32-byte scalar ser256(k) if priv, else serP(K)]    *)

BitcoinSeed == <<66,105,116,99,111,105,110,32,115,101,101,100>>   \* "Bitcoin seed"

NoKey == [ver |-> <<>>, depth |-> 0, fp |-> <<>>, num |-> [hard |-> FALSE, n |-> 0],
          cc |-> <<>>, priv |-> FALSE, key |-> <<>>]
Invalid == [valid |-> FALSE, k |-> NoKey]
Valid(k) == [valid |-> TRUE, k |-> k]

Pub(or, k) == IF k.priv THEN Point(or, k.key) ELSE k.key
Fingerprint(or, k) == SubSeq(Hash160(or, Pub(or, k)), 1, 4)

\* BIP-32 "Master key generation": I = HMAC-SHA512("Bitcoin seed", S); IL = 0 or >= n: invalid
Master(or, net, seed) ==
    LET I == HMAC(or, BitcoinSeed, seed)
        IL == SubSeq(I, 1, 32)
        IR == SubSeq(I, 33, 64)
    IN IF IsZero(IL) \/ Geq(IL, NOrder) THEN Invalid
       ELSE Valid([ver |-> net.prv, depth |-> 0, fp |-> Zeros(4), num |-> [hard |-> FALSE, n |-> 0],
                   cc |-> IR, priv |-> TRUE, key |-> IL])

\* the string fed to HMAC for child i of k
Data(or, k, i) == IF i.hard THEN <<0>> \o k.key \o Ser32(i)       \* 0x00 || ser256(kpar) || ser32(i)
                  ELSE Pub(or, k) \o Ser32(i)                      \* serP(Kpar) || ser32(i)

\* BIP-32 CKDpriv; "In case parse256(IL) >= n or ki = 0, the resulting key is invalid"
CKDprivWith(or, k, i, data) ==
    LET I == HMAC(or, k.cc, data)
        IL == SubSeq(I, 1, 32)
        IR == SubSeq(I, 33, 64)
        ki == AddModN(IL, k.key)
    IN IF Geq(IL, NOrder) \/ IsZero(ki) THEN Invalid
       ELSE Valid([ver |-> k.ver, depth |-> k.depth + 1, fp |-> Fingerprint(or, k), num |-> i,
                   cc |-> IR, priv |-> TRUE, key |-> ki])
CKDpriv(or, k, i) == CKDprivWith(or, k, i, Data(or, k, i))

\* BIP-32 CKDpub (non-hardened only); "In case parse256(IL) >= n or Ki is the point at infinity, ... invalid"
CKDpub(or, K, i) ==
    LET I == HMAC(or, K.cc, K.key \o Ser32(i))
        IL == SubSeq(I, 1, 32)
        IR == SubSeq(I, 33, 64)
    IN IF Geq(IL, NOrder) THEN Invalid
       ELSE LET Ki == PointAdd(or, IL, K.key)
            IN IF ~Ki.ok THEN Invalid
               ELSE Valid([ver |-> K.ver, depth |-> K.depth + 1, fp |-> Fingerprint(or, K), num |-> i,
                           cc |-> IR, priv |-> FALSE, key |-> Ki.out])

\* N((k, c)) = (point(k), c); the version becomes the network's public version
Neuter(or, net, k) ==
    IF ~k.priv THEN k
    ELSE [k EXCEPT !.ver = IF k.ver = net.prv THEN net.pub ELSE k.ver, !.priv = FALSE, !.key = Point(or, k.key)]

\* 78-byte serialisation: version(4) depth(1) fingerprint(4) child number(4) chain code(32) key(33)
Ser(k) == k.ver \o <<k.depth>> \o k.fp \o Ser32(k.num) \o k.cc \o (IF k.priv THEN <<0>> \o k.key ELSE k.key)
Unser(p) == LET kd == SubSeq(p, 46, 78)
            IN [ver |-> SubSeq(p, 1, 4), depth |-> p[5], fp |-> SubSeq(p, 6, 9), num |-> Unser32(SubSeq(p, 10, 13)),
                cc |-> SubSeq(p, 14, 45), priv |-> kd[1] = 0, key |-> IF kd[1] = 0 THEN Tail(kd) ELSE kd]
WithCheck(or, p) == p \o SubSeq(Sha256d(or, p), 1, 4)
Str(or, k) == B58Enc(or, WithCheck(or, Ser(k)))

\* the deviation recorded as known finding K-C14-1: the parent's private scalar loses its leading zero
\* bytes before it is copied into the 33-byte key field of Data, so it ends up left-aligned
\* (0x00 || strip(k) || 0x00.. || ser32(i)); only hardened children use that field
DeviantData(k, i) == LET z == LeadingZeros(k.key)
                     IN <<0>> \o SubSeq(k.key, z + 1, 32) \o Zeros(z) \o Ser32(i)
KnownLeadingZero == "K-C14-1"
KnownLeadingZeroInput(k, i) == k.priv /\ i.hard /\ k.key[1] = 0
    \* classifier: hardened derivation from a parent private key with >= 1 leading zero byte

---------------------------------------------------------------------------
(* what is observed of an implementation key, and what it must be          *)
(* obs = [str, depth, fp, priv, eckey, ecpub, h160, neuter]                *)

\* which serialised field differs first (for the report)
SerDiff(or, want, gotStr) ==
    LET d == B58Dec(or, gotStr)
    IN IF ~d.ok \/ Len(d.out) # 82 THEN "serialisation-length-or-alphabet"
       ELSE LET g == d.out
                w == WithCheck(or, want)
                F(a, b) == SubSeq(g, a, b) # SubSeq(w, a, b)
            IN IF F(1, 4) THEN "version"
               ELSE IF F(5, 5) THEN "depth"
               ELSE IF F(6, 9) THEN "parent-fingerprint"
               ELSE IF F(10, 13) THEN "child-number"
               ELSE IF F(14, 45) THEN "chain-code"
               ELSE IF F(46, 78) THEN "key"
               ELSE IF F(79, 82) THEN "checksum"
               ELSE "base58-text"

NeuterDefined(net, k) == ~k.priv \/ k.ver = net.prv   \* the statement fixes no public version for foreign private versions

ObsDiff(or, net, k, o) ==
    LET K == Pub(or, k)
    IN IF o.str # Str(or, k) THEN SerDiff(or, Ser(k), o.str)
       ELSE IF o.depth # k.depth THEN "depth-accessor"
       ELSE IF o.fp # k.fp THEN "parent-fingerprint-accessor"
       ELSE IF o.priv # k.priv THEN "is-private"
       ELSE IF o.eckey # k.key THEN "key-accessor"
       ELSE IF o.ecpub # K THEN "public-key"
       ELSE IF o.h160 # Hash160(or, K) THEN "key-identifier"
       ELSE IF NeuterDefined(net, k) /\ o.neuter # Str(or, Neuter(or, net, k)) THEN "neuter"
       ELSE ""

---------------------------------------------------------------------------
(* verdicts                                                                *)
(* v: "ok" | "dontcare" | "known" | "violation" | "specfail"               *)
(*   specfail = the specification or the trusted primitives disagree with  *)
(*   themselves or with the published BIP-32 vectors: inconclusive.        *)

Res(v, clause, why) == [v |-> v, clause |-> clause, why |-> why]

\* a must-accept result: the implementation produced a key and every observation equals the spec's
Accepts(or, net, s, im, clause) ==
    IF ~im.ok THEN Res("violation", clause, "rejected:" \o im.err)
    ELSE LET d == ObsDiff(or, net, s.k, im.obs)
         IN IF d = "" THEN Res("ok", clause, "") ELSE Res("violation", clause, d)

Rejects(im, clause, rule) ==
    IF im.ok THEN Res("violation", clause, "accepted:" \o rule) ELSE Res("ok", clause, rule)

\* published vectors: the SPEC (with the oracle) must reproduce them, else the check is inconclusive
VectorOK(or, net, l, k) ==
    (l.expect = "" \/ Str(or, k) = l.expect) /\ (l.expectpub = "" \/ Str(or, Neuter(or, net, k)) = l.expectpub)

\* --- master: for all seeds of 16..64 bytes
VerdictMaster(l) ==
    LET or == l.or  net == l.net  im == l.impl
    IN IF Len(l.seed) \notin 16..64
       THEN Res("dontcare", "master-seed-length", IF im.ok THEN "accepted" ELSE "rejected")   \* outside the quantifier
       ELSE LET s == Master(or, net, l.seed)
            IN IF ~s.valid THEN Rejects(im, "master-invalid", "IL=0 or IL>=n")
               ELSE IF ~VectorOK(or, net, l, s.k) THEN Res("specfail", "bip32-test-vector", l.expect)
               ELSE Accepts(or, net, s, im, "master")

\* --- child of a private parent, together with the statement's relation
\*      Child(Neuter(k), i) = Neuter(Child(k, i))  (non-hardened)   and   hardened-from-public is rejected
RelationVerdict(or, net, par, i, s, im, clause) ==
    IF i.hard THEN (IF im.pub.ok THEN Res("violation", "hardened-from-public", "accepted") ELSE Res("ok", clause, ""))
    ELSE LET want == Str(or, Neuter(or, net, s.k))
             viaPub == CKDpub(or, Neuter(or, net, par), i)
         IN IF ~viaPub.valid \/ Str(or, viaPub.k) # want
            THEN Res("specfail", "spec-ckdpub-commutes", "")     \* point(IL + k) # point(IL) + point(k): arithmetic of the spec is wrong
            ELSE IF ~im.pub.ok THEN Res("violation", "public-derivation", "rejected:" \o im.pub.err)
            ELSE IF im.pub.str # want THEN Res("violation", "public-derivation", SerDiff(or, Ser(viaPub.k), im.pub.str))
            ELSE Res("ok", clause, "")

VerdictChildPriv(l, par, known) ==
    LET or == l.or  net == l.net  im == l.impl  i == l.i
    IN IF par.depth = 255 THEN
            (IF im.ok \/ im.pub.ok THEN Res("violation", "depth-255", "accepted") ELSE Res("ok", "depth-255", ""))
       ELSE LET s == CKDpriv(or, par, i)
            IN IF ~s.valid THEN Rejects(im, "invalid-child", "IL>=n or ki=0")
               ELSE IF ~VectorOK(or, net, l, s.k) THEN Res("specfail", "bip32-test-vector", l.expect)
               ELSE LET a == Accepts(or, net, s, im, IF i.hard THEN "ckd-priv-hardened" ELSE "ckd-priv-normal")
                    IN IF a.v = "ok" THEN RelationVerdict(or, net, par, i, s, im, a.clause)
                       ELSE IF im.ok /\ KnownLeadingZeroInput(par, i)
                            THEN LET dv == CKDprivWith(or, par, i, DeviantData(par, i))
                                 IN IF dv.valid /\ ObsDiff(or, net, dv.k, im.obs) = "" /\ ~im.pub.ok
                                    THEN (IF KnownLeadingZero \in known
                                          THEN Res("known", KnownLeadingZero, a.why)
                                          ELSE Res("violation", a.clause, a.why \o ":parent-scalar-leading-zero-not-padded"))
                                    ELSE a
                            ELSE a

VerdictChildPub(l, par) ==
    LET or == l.or  net == l.net  im == l.impl  i == l.i
    IN IF i.hard THEN Rejects(im, "hardened-from-public", "hardened index")
       ELSE IF par.depth = 255 THEN Rejects(im, "depth-255", "depth")
       ELSE LET s == CKDpub(or, par, i)
            IN IF ~s.valid THEN Rejects(im, "invalid-child", "IL>=n or infinity")
               ELSE IF ~VectorOK(or, net, l, s.k) THEN Res("specfail", "bip32-test-vector", l.expect)
               ELSE Accepts(or, net, s, im, "ckd-pub")

VerdictChild(l, known) ==
    LET d == B58Dec(l.or, l.parent)
        par == Unser(SubSeq(d.out, 1, 78))
    IN IF ~d.ok \/ Len(d.out) # 82       \* the parent is identified by what its own String() returned
       THEN Res("violation", "parent-serialisation", "serialisation-length-or-alphabet")
       ELSE IF par.priv THEN VerdictChildPriv(l, par, known) ELSE VerdictChildPub(l, par)

\* --- importing a serialised key.  Classes:
\*     MUST-REJECT  not base-58, decoded length # 82, checksum mismatch, key prefix not in {00,02,03},
\*                  private key 0 or >= n, x >= p or x not on the curve           (named by the statement)
\*     MUST-ACCEPT  none of the above, version is the network's private/public version and matches the
\*                  key kind, and a depth-0 key carries no parent data: the result equals the key
\*     DON'T-CARE   none of the above but unknown version / version-kind mismatch / depth 0 with
\*                  fingerprint or child number # 0 (BIP-32 test vector 5 calls these invalid; the
\*                  statement under check does not name them, so either answer is admitted)
ParseClass(or, net, s) ==
    LET d == B58Dec(or, s)
    IN IF ~d.ok THEN [c |-> "reject", rule |-> "not-base58"]
       ELSE IF Len(d.out) # 82 THEN [c |-> "reject", rule |-> "length"]
       ELSE LET pay == SubSeq(d.out, 1, 78)
                k == Unser(pay)
                shape == IF k.ver \notin {net.prv, net.pub} THEN [c |-> "dontcare", rule |-> "unknown-version"]
                         ELSE IF k.priv # (k.ver = net.prv) THEN [c |-> "dontcare", rule |-> "version-kind-mismatch"]
                         ELSE IF k.depth = 0 /\ (k.fp # Zeros(4) \/ k.num # [hard |-> FALSE, n |-> 0])
                              THEN [c |-> "dontcare", rule |-> "master-with-parent-data"]
                         ELSE [c |-> "accept", rule |-> "well-formed"]
            IN IF SubSeq(Sha256d(or, pay), 1, 4) # SubSeq(d.out, 79, 82) THEN [c |-> "reject", rule |-> "checksum"]
               ELSE IF pay[46] = 0
                    THEN (IF IsZero(k.key) \/ Geq(k.key, NOrder) THEN [c |-> "reject", rule |-> "private-key-range"] ELSE shape)
               ELSE IF pay[46] \in {2, 3}
                    THEN (LET x == SubSeq(pay, 47, 78)
                          IN IF Geq(x, PField) THEN [c |-> "reject", rule |-> "public-key-x-out-of-range"]
                             ELSE IF ~Liftable(or, x) THEN [c |-> "reject", rule |-> "public-key-not-on-curve"]
                             ELSE shape)
               ELSE [c |-> "reject", rule |-> "key-prefix"]

\* the deviation recorded as known finding K-C14-2: a compressed public key whose x is not a reduced
\* field element (p <= x < 2^256) is imported when x - p is the abscissa of a curve point
\* (btcec's ParsePubKey reduces x silently for compressed keys)
KnownXRange == "K-C14-2"
KnownXRangeInput(or, s) ==
    LET pay == SubSeq(B58Dec(or, s).out, 1, 78)
        x == SubSeq(pay, 47, 78)
    IN Liftable(or, SubFrom(x, PField, 1)[2])

VerdictParse(l, known) ==
    LET or == l.or  net == l.net  im == l.impl
        pc == ParseClass(or, net, l.s)
    IN IF l.expectclass # "" /\ l.expectclass # pc.c THEN Res("specfail", "generator-class", pc.c \o ":" \o pc.rule)
       ELSE IF pc.c = "reject" /\ im.ok /\ pc.rule = "public-key-x-out-of-range" /\ KnownXRangeInput(or, l.s)
            THEN (IF KnownXRange \in known THEN Res("known", KnownXRange, "accepted:" \o pc.rule)
                  ELSE Res("violation", "parse-reject:" \o pc.rule, "accepted:x>=p-reduced-mod-p"))
       ELSE IF pc.c = "reject" THEN Rejects(im, "parse-reject:" \o pc.rule, pc.rule)
       ELSE IF pc.c = "dontcare" THEN Res("dontcare", "parse:" \o pc.rule, IF im.ok THEN "accepted" ELSE "rejected")
       ELSE Accepts(or, net, Valid(Unser(SubSeq(B58Dec(or, l.s).out, 1, 78))), im, "parse-accept")

VerdictConst(l) ==
    IF l.n = NOrder /\ l.p = PField THEN Res("ok", "const", "") ELSE Res("specfail", "curve-constants", "")

Verdict(l, known) ==
    IF l.op = "const" THEN VerdictConst(l)
    ELSE IF l.impl.panic THEN Res("violation", "panic", l.impl.err)      \* a crash is never a rejection
    ELSE IF ~OracleFunctional(l.or) THEN Res("specfail", "oracle-not-functional", "")
    ELSE IF l.op = "master" THEN VerdictMaster(l)
    ELSE IF l.op = "child" THEN VerdictChild(l, known)
    ELSE IF l.op = "parse" THEN VerdictParse(l, known)
    ELSE Res("specfail", "unknown-op", l.op)

---------------------------------------------------------------------------
(* self-checks of the arithmetic (evaluated once at start-up)              *)
One32 == Zeros(31) \o <<1>>
NMinus1 == Tail(SubFrom(<<0>> \o NOrder, Zeros(32) \o <<1>>, 1)[2])
ASSUME AddModN(NMinus1, One32) = Zeros(32)                      \* (n-1) + 1 = 0
ASSUME AddModN(NMinus1, NMinus1) = Tail(SubFrom(<<0>> \o NMinus1, Zeros(32) \o <<1>>, 1)[2])   \* 2(n-1) = n-2
ASSUME AddModN(One32, One32) = Zeros(31) \o <<2>>
ASSUME AddModN(Zeros(30) \o <<255, 255>>, One32) = Zeros(29) \o <<1, 0, 0>>
ASSUME Ser32([hard |-> TRUE, n |-> 44]) = <<128, 0, 0, 44>> /\ Unser32(<<255, 255, 255, 255>>) = [hard |-> TRUE, n |-> 2147483647]
ASSUME Lt(NMinus1, NOrder) /\ Geq(NOrder, NOrder) /\ Lt(NOrder, PField)
=============================================================================
