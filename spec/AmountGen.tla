----------------------------- MODULE AmountGen -----------------------------
(***************************************************************************)
(* Case generator for C15.  A state is ONE case; TLC's breadth-first       *)
(* search enumerates the whole bounded case space (each distinct state is  *)
(* visited once) and the invariant Emit prints every case as a JSON line   *)
(* together with the specification's class for it.  The Go command         *)
(* harness/cmd/amount evaluates the implementation on the cases; the       *)
(* verdict on every line is TLC's again (AmountTrace).                     *)
(*                                                                         *)
(* Families                                                                *)
(*   enum   parse: ALL strings of length <= EnumLen over Alphabet          *)
(*   mut    parse: base numerals x (insert | replace) x position x         *)
(*          adversarial byte sequence                                      *)
(*   pad    parse: canonical numerals of the boundary amounts with leading *)
(*          zeros / trailing fractional zeros / a ninth fractional digit   *)
(*   int    format: ALL integers with at most IntLen digits                *)
(*   tern   format: all digit strings over {0,1,9} of length <= TernLen    *)
(*   pow    format: d * 10^k + {-1,0,1}, k <= 18, up to and beyond the     *)
(*          supply, within int64                                           *)
(*   edge   format: MaxAmount +-2, int64 limits, negatives                 *)
(*                                                                         *)
(* Model-level invariants (statements about the SPECIFICATION, checked on  *)
(* the same state space): ShortestOK - Canonical(m) is accepted, denotes   *)
(* m, and no accepted string with the same value is shorter; ClassTotal.   *)
(***************************************************************************)
EXTENDS Amount, Json, TLC

CONSTANTS EnumLen,      \* max length of the exhaustively enumerated strings
          Alphabet,     \* their alphabet (byte values)
          IntLen,       \* all integers of at most this many digits are formatted
          TernLen,      \* digit strings over {0,1,9} up to this length are formatted
          MutOn         \* TRUE: families mut and pad enabled

VARIABLE c
vars == <<c>>

Int64Max == <<9, 2, 2, 3, 3, 7, 2, 0, 3, 6, 8, 5, 4, 7, 7, 5, 8, 0, 7>>
Int64MinAbs == Inc(Int64Max)
FitsInt64(neg, d) == IF neg THEN Le(d, Int64MinAbs) ELSE Le(d, Int64Max)

P(fam, s) == [k |-> "parse", fam |-> fam, in |-> s]
F(fam, neg, d) == [k |-> "fmt", fam |-> fam, neg |-> neg, d |-> d]

\* ---- format: boundary amounts
PowBase == {<<dd>> \o Zeros(kk) : dd \in 1..9, kk \in 0..18}
PowAmounts == {x \in PowBase \cup {Inc(b) : b \in PowBase} \cup {Dec(b) : b \in PowBase} : FitsInt64(FALSE, x)}
EdgeAmounts == {MaxAmountDigits, Inc(MaxAmountDigits), Inc(Inc(MaxAmountDigits)), Dec(MaxAmountDigits),
                Dec(Dec(MaxAmountDigits)), Int64Max, Dec(Int64Max), MaxMassDigits,
                <<1, 0, 5, 0, 0, 0, 0, 0, 0>>, <<1, 2, 3, 4, 5, 6, 7, 8>>, <<1, 2, 3, 4, 5, 6, 7, 8, 9>>,
                <<1, 2, 3, 4, 5, 0>>, MaxMassDigits \o <<1, 2, 3, 4, 5, 6, 7, 8>>}
NegAmounts == {<<1>>, UnitDigits, <<5>> \o Zeros(7), MaxAmountDigits, Int64Max, Int64MinAbs}

FmtRoots == {F("pow", FALSE, x) : x \in PowAmounts} \cup {F("edge", FALSE, x) : x \in EdgeAmounts}
            \cup {F("edge", TRUE, x) : x \in NegAmounts}
            \cup {F("int", FALSE, <<x>>) : x \in 0..9} \cup {F("tern", FALSE, <<x>>) : x \in {1, 9}}

\* ---- parse: base numerals and their mutations
Str19 == Chars(Int64Max)
BaseStrings ==
    {Canonical(x) : x \in {<<0>>, <<1>>, UnitDigits, Dec(UnitDigits), <<1, 0, 5, 0, 0, 0, 0, 0, 0>>,
                           <<1, 2, 3, 4, 5, 6, 7, 8, 9>>, MaxAmountDigits, Dec(MaxAmountDigits)}}
    \cup {Chars(MaxMassDigits) \o <<CDot>> \o Chars(Zeros(7)) \o <<49>>,      \* supply + 1 Maxwell
          Chars(Inc(MaxMassDigits)),                                           \* supply + 1 MASS
          <<48, CDot>> \o Chars(Zeros(8)) \o <<49>>,                            \* 0.000000001
          Str19, Chars(Inc(Int64Max)),                                         \* 2^63-1, 2^63
          <<49, 56, 52, 52, 54, 55, 52, 52, 48, 55, 51, 55, 48, 57, 53, 53, 49, 54, 49, 54>>,  \* 2^64
          <<51>> \o Chars(Zeros(39)),                                          \* > 2^128
          <<48, 48, CDot, 49, 48>>, <<49, CDot>>, <<CDot, 49>>, <<CDot>>, <<>>, <<48>>}
MutSeqs == {<<CPlus>>, <<CMinus>>, <<101>>, <<69>>, <<95>>, <<32>>, <<44>>, <<CDot>>, <<9>>, <<10>>, <<0>>,
            <<255>>, <<120>>, <<48>>, <<39>>,
            <<217, 161>>,              \* U+0661 ARABIC-INDIC DIGIT ONE
            <<239, 188, 145>>,         \* U+FF11 FULLWIDTH DIGIT ONE
            <<101, 53>>, <<CMinus, CMinus>>, <<32, 77, 65, 83, 83>>}
Insert(s, p, x)  == SubSeq(s, 1, p) \o x \o SubSeq(s, p + 1, Len(s))      \* after position p, 0..Len(s)
Replace(s, p, x) == SubSeq(s, 1, p - 1) \o x \o SubSeq(s, p + 1, Len(s))  \* position p, 1..Len(s)
MutCases == UNION {{P("mut", Insert(s, p, x)) : p \in 0..Len(s), x \in MutSeqs}
                    \cup {P("mut", Replace(s, p, x)) : p \in 1..Len(s), x \in MutSeqs} : s \in BaseStrings}

PadOf(s) == {s, <<48>> \o s, <<48, 48, 48>> \o s,
             IF HasDot(s) THEN s \o <<48>> ELSE s \o <<CDot, 48>>,
             IF HasDot(s) THEN s \o Chars(Zeros(9)) ELSE s \o <<CDot>> \o Chars(Zeros(9)),
             IF HasDot(s) THEN s \o Chars(Zeros(8 - Len(FracPart(s)))) \o <<53>>        \* a ninth fractional digit
                          ELSE s \o <<CDot>> \o Chars(Zeros(8)) \o <<53>>,
             IF HasDot(s) THEN s ELSE s \o <<CDot>>,                                       \* "5."
             IF Len(IntPart(s)) = 1 /\ s[1] = 48 /\ HasDot(s) THEN SubSeq(s, 2, Len(s)) ELSE s}  \* ".5"
PadCases == {P("pad", t) : t \in UNION {PadOf(Canonical(x)) : x \in {y \in PowAmounts \cup EdgeAmounts : Le(y, Inc(Inc(MaxAmountDigits)))}}}

Roots == FmtRoots \cup {P("enum", <<>>)} \cup (IF MutOn THEN MutCases \cup PadCases ELSE {})

Init == c = [k |-> "root"]

Next ==
    \/ c.k = "root" /\ c' \in Roots
    \/ /\ c.k = "parse" /\ c.fam = "enum" /\ Len(c.in) < EnumLen
       /\ \E a \in Alphabet : c' = [c EXCEPT !.in = Append(@, a)]
    \/ /\ c.k = "fmt" /\ c.fam = "int" /\ Len(c.d) < IntLen /\ c.d # <<0>>
       /\ \E a \in 0..9 : c' = [c EXCEPT !.d = Append(@, a)]
    \/ /\ c.k = "fmt" /\ c.fam = "tern" /\ Len(c.d) < TernLen
       /\ \E a \in {0, 1, 9} : c' = [c EXCEPT !.d = Append(@, a)]

Spec == Init /\ [][Next]_vars

\* ---- printed once per distinct case; never violated
Verdict == CASE c.k = "parse" -> [cls |-> Class(c.in), why |-> Why(c.in)]
             [] c.k = "fmt"   -> [cls |-> IF InRange(c.neg, c.d) THEN "inrange" ELSE "outofrange", why |-> c.fam]
Emit == c.k # "root" => PrintT(<<"CASE", ToJson(c @@ Verdict)>>)

\* ---- the specification's own consistency on the generated space
ClassTotal == c.k = "parse" => Class(c.in) \in {"accept", "reject", "dontcare"}
ShortestOK ==
    /\ (c.k = "parse" /\ Class(c.in) = "accept") =>
          LET m == Scaled(c.in) t == Canonical(m)
          IN  /\ IsCanon(m) /\ Le(m, MaxAmountDigits)
              /\ Class(t) = "accept" /\ Scaled(t) = m
              /\ Len(t) <= Len(c.in)                       \* no accepted string of the same value is shorter
              /\ (Len(t) = Len(c.in) => t = c.in)          \* and the shortest one is unique
    /\ (c.k = "parse" /\ Class(c.in) = "dontcare") => IsCanon(Scaled(c.in)) /\ Le(Scaled(c.in), MaxAmountDigits)
    /\ (c.k = "fmt" /\ InRange(c.neg, c.d)) =>
          LET t == Canonical(c.d) IN Class(t) = "accept" /\ Scaled(t) = c.d /\ FitsInt64(c.neg, c.d)
    /\ c.k = "fmt" => IsCanon(c.d) /\ FitsInt64(c.neg, c.d)
=============================================================================
