---------------------------- MODULE TxBuildTrace ----------------------------
(* Judges every recorded call of a trace (ndjson) with TxBuild!Fails / SignFails. *)
EXTENDS TxBuild, Json
Trace == ndJsonDeserialize("trace.ndjson")
VARIABLE i
Init == i = 1
Next == i < Len(Trace) /\ i' = i + 1
Spec == Init /\ [][Next]_i
\* JSON arrays become sequences; the fields used as sets are converted here
Norm(l) == [l EXCEPT !.coins = Range(l.coins), !.req.subfee = Range(l.req.subfee)]
Judged == i > Len(Trace) \/
          LET L == Norm(Trace[i])
              f == Fails(L)
              g == SignFails(L)
          IN /\ (f = {} \/ PrintT(<<"FAIL", i, "C02", f>>))
             /\ (g = {} \/ PrintT(<<"FAIL", i, "C03", g>>))
=============================================================================
