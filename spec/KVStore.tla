------------------------------ MODULE KVStore ------------------------------
(***************************************************************************)
(* C11 - the wallet database gives atomic, isolated, ordered key/value     *)
(* transactions.                                                           *)
(*                                                                         *)
(* The store (masswallet/db, LevelDB backend masswallet/db/ldb) is         *)
(* specified as a REFERENCE MAP: a tree of buckets and, per bucket, a      *)
(* finite map from keys to values.  Keys, values and bucket names are      *)
(* byte strings (sequences over 0..255).  There is one committed store and *)
(* at most one open write transaction, which owns a private view.  Every   *)
(* operation of the API is an operator pair                                *)
(*      Res(st, op)   the result the caller must see                       *)
(*      Eff(st, op)   the state afterwards                                 *)
(* over st = [com, open, mode, view, dead, taint].  Nothing of the         *)
(* implementation's encoding (<depth>_<path>_<key>, batch overlay) appears *)
(* here; module KVStoreEnc states that encoding and TLC checks that it     *)
(* refines this module.                                                    *)
(*                                                                         *)
(* How the clauses of the statement are expressed                          *)
(*  - atomic commit:   Eff(commit) sets com to the whole view at once;     *)
(*                     every read through a read transaction is a function *)
(*                     of com alone.                                       *)
(*  - rollback / error return: com unchanged, view discarded.              *)
(*  - own writes:      reads with via = "w" are functions of view.         *)
(*  - isolation:       a bucket is addressed by its PATH (sequence of      *)
(*                     names); the map is keyed by <<path, key>>, so two   *)
(*                     buckets share nothing whatever bytes occur.         *)
(*  - ordered, exact iteration (read transactions): result class "ents" -  *)
(*                     the sequence of matching entries, ascending in      *)
(*                     bytewise lexicographic order, each once.            *)
(*  - durability:      Eff(reopen) is the identity on com.                 *)
(*                                                                         *)
(* Result classes (what is compared)                                       *)
(*   MUST-ACCEPT   "ok"        the operation succeeds                      *)
(*   MUST-REJECT   "err"       an error is returned and NOTHING changes    *)
(*                             (only the class is fixed, not the error)    *)
(*                 "nobucket"  the addressed bucket does not exist: lookup *)
(*                             yields no bucket, nothing changes           *)
(*   values        "val" / "absent"   point read                          *)
(*                 "ents"      ordered entries (read transaction)          *)
(*                 "entset"    entries as a set of <<key, value>> pairs    *)
(*                             (write transaction: the statement fixes no  *)
(*                             order there, and a repeated identical pair  *)
(*                             is harmless)                                *)
(*                 "names"     bucket listing as a set (no order stated)   *)
(*   DON'T-CARE    "any"       success or error, the statement is silent;  *)
(*                             the state effect is still fixed (none)      *)
(*                 "noval"     no value may be returned (absent or error)  *)
(* A panic never matches any class.                                        *)
(***************************************************************************)
EXTENDS Naturals, Sequences, FiniteSets, SequencesExt, TLC

--------------------------------------------------------------------------
(* byte strings *)
Byte == 0..255
Sep  == 95            \* "_" : may not occur in a bucket name (API rule, ldb.isValidBucketName)
MaxNameLen == 256

IsPrefixOf(s, t) == Len(s) <= Len(t) /\ SubSeq(t, 1, Len(s)) = s

RECURSIVE Less(_, _)
\* bytewise lexicographic order (bytes.Compare < 0)
Less(a, b) == IF b = <<>> THEN FALSE
              ELSE IF a = <<>> THEN TRUE
              ELSE IF a[1] # b[1] THEN a[1] < b[1]
              ELSE Less(Tail(a), Tail(b))
Leq(a, b) == a = b \/ Less(a, b)

ValidName(n) == Len(n) >= 1 /\ Len(n) <= MaxNameLen /\ \A i \in 1..Len(n) : n[i] # Sep
ValidKey(k)  == k # <<>>
ValidVal(v)  == v # <<>>

--------------------------------------------------------------------------
(* the reference store: bk = set of bucket paths (a path is a non-empty     *)
(* sequence of names; the parent of every member is a member or the root    *)
(* <<>>), kv = function from <<path, key>> to value                         *)
EmptyStore == [bk |-> {}, kv |-> <<>>]

Parent(p) == SubSeq(p, 1, Len(p) - 1)
Name(p)   == p[Len(p)]
Under(p, q) == IsPrefixOf(p, q)          \* q is p or a descendant of p

KeysOf(S, p) == {x[2] : x \in {y \in DOMAIN S.kv : y[1] = p}}
Has(S, p, k) == <<p, k>> \in DOMAIN S.kv

\* all entries of bucket p, ascending by key
Entries(S, p) == LET ks == SetToSortSeq(KeysOf(S, p), Less)
                 IN  [i \in 1..Len(ks) |-> <<ks[i], S.kv[<<p, ks[i]>>]>>]
Select(es, T(_)) == SelectSeq(es, LAMBDA e : T(e[1]))

Children(S, p) == {Name(q) : q \in {r \in S.bk : Len(r) = Len(p) + 1 /\ Parent(r) = p}}

SPut(S, p, k, v) == [S EXCEPT !.kv = [x \in DOMAIN S.kv \cup {<<p, k>>} |->
                                          IF x = <<p, k>> THEN v ELSE S.kv[x]]]
SDel(S, p, k)    == [S EXCEPT !.kv = [x \in DOMAIN S.kv \ {<<p, k>>} |-> S.kv[x]]]
SClear(S, p)     == [S EXCEPT !.kv = [x \in {y \in DOMAIN S.kv : y[1] # p} |-> S.kv[x]]]
SCreate(S, p)    == [S EXCEPT !.bk = @ \cup {p}]
\* deleting a bucket removes it, every bucket below it and all their entries
SDelB(S, p)      == [bk |-> {q \in S.bk : ~Under(p, q)},
                     kv |-> [x \in {y \in DOMAIN S.kv : ~Under(p, y[1])} |-> S.kv[x]]]

\* the whole store as a value that can be printed / compared: one record per bucket
Snap(S) == {[p |-> q, e |-> Entries(S, q)] : q \in S.bk}

--------------------------------------------------------------------------
(* state of the specification                                              *)
(*   com    committed store                                                *)
(*   open   a write transaction is open (the store admits one at a time)   *)
(*   mode   "m": begun with BeginTx, ended by Commit / Rollback            *)
(*          "u": run by db.Update(closure): ended by the closure returning *)
(*               nil (commit) or an error (errret)                         *)
(*   view   the open transaction's private store                           *)
(*   dead, taint   bookkeeping for the classifier of known finding K-C11-1 *)
(*          (not used by any expected result): dead = buckets removed in   *)
(*          the open transaction (with everything below them) and not      *)
(*          re-created themselves; taint = a write went through a bucket   *)
(*          at or below a dead one at some time                            *)
InitState == [com |-> EmptyStore, open |-> FALSE, mode |-> "", view |-> EmptyStore,
              dead |-> {}, taint |-> FALSE]

ReadOps  == {"get", "pget", "names", "iter", "iterp"}
WriteOps == {"create", "delb", "put", "del", "clear"}
CtlOps   == {"begin", "commit", "rollback", "errret", "reopen"}

\* the store an operation sees: the view through the write transaction, the
\* committed store through a read transaction - also while a write transaction is open
Seen(st, op) == IF op.via = "w" THEN st.view ELSE st.com

\* may the operation be issued in this state at all (API usage rules, not results)
Usable(st, op) ==
    CASE op.a = "begin"    -> ~st.open
      [] op.a = "reopen"   -> ~st.open
      [] op.a = "commit"   -> st.open
      [] op.a = "rollback" -> st.open /\ st.mode = "m"
      [] op.a = "errret"   -> st.open /\ st.mode = "u"
      [] op.a \in WriteOps -> (op.via = "w" /\ st.open) \/ op.via = "r"
      [] op.a \in {"iter", "iterp"} -> op.via = "r"
      [] OTHER             -> op.via = "r" \/ (op.via = "w" /\ st.open)

R(c, x) == [c |-> c, x |-> x]
OkRes == R("ok", <<>>)   ErrRes == R("err", <<>>)   NoBucket == R("nobucket", <<>>)
AnyRes == R("any", <<>>) Absent == R("absent", <<>>)  NoVal == R("noval", <<>>)

\* does the bucket addressed by op.p exist for this operation ("names", "create"
\* may also address the root <<>>)
Found(S, p) == p \in S.bk
ParentFound(S, p) == Len(p) = 1 \/ Parent(p) \in S.bk

\* the entries an iterator over [lo, hi) returns: n calls of Next, then (if s) Seek(v),
\* then Next until exhausted.  An empty hi means "no upper bound"; Seek positions on the
\* first entry >= max(v, lo) of the range.
InRange(k, lo, hi) == Leq(lo, k) /\ (hi = <<>> \/ Less(k, hi))
IterRes(es, op) ==
    LET rng == Select(es, LAMBDA k : InRange(k, op.k, op.k2))
        m   == IF op.n < Len(rng) THEN op.n ELSE Len(rng)
    IN  IF op.s
        THEN SubSeq(rng, 1, m) \o Select(rng, LAMBDA k : Leq(op.v, k))
        ELSE rng

\* -------- expected result
WriteRes(st, op) ==
    LET S == st.view  p == op.p IN
    IF op.via = "r" THEN
        \* a write through a read transaction: the interface names ErrWriteNotAllowed; the
        \* statement is silent, so only the effect (none) is fixed
        IF op.a \in {"create", "delb"} THEN (IF ParentFound(st.com, p) THEN AnyRes ELSE NoBucket)
        ELSE (IF Found(st.com, p) THEN AnyRes ELSE NoBucket)
    ELSE CASE op.a = "create" ->
                  IF ~ParentFound(S, p) THEN NoBucket
                  ELSE IF ~ValidName(Name(p)) THEN ErrRes         \* MUST-REJECT: illegal name
                  ELSE IF p \in S.bk THEN AnyRes                  \* silent: error or no-op, content kept
                  ELSE OkRes
           [] op.a = "delb" ->
                  IF ~ParentFound(S, p) THEN NoBucket
                  ELSE IF Len(p) = 1 THEN ErrRes                  \* top-level buckets cannot be deleted (API contract)
                  ELSE IF p \notin S.bk THEN AnyRes               \* silent: nothing to delete
                  ELSE OkRes
           [] op.a = "put" ->
                  IF ~Found(S, p) THEN NoBucket
                  ELSE IF ~ValidKey(op.k) \/ ~ValidVal(op.v) THEN ErrRes   \* MUST-REJECT: empty key / empty value
                  ELSE OkRes
           [] op.a = "del" ->
                  IF ~Found(S, p) THEN NoBucket
                  ELSE IF ~ValidKey(op.k) THEN AnyRes
                  ELSE OkRes
           [] op.a = "clear" -> IF ~Found(S, p) THEN NoBucket ELSE OkRes

ReadRes(st, op) ==
    LET S == Seen(st, op)  p == op.p IN
    CASE op.a = "names" ->
             IF p # <<>> /\ ~Found(S, p) THEN NoBucket
             ELSE R("names", SetToSeq(Children(S, p)))
      [] ~Found(S, p) -> NoBucket
      [] op.a = "get" ->
             IF ~ValidKey(op.k) THEN NoVal
             ELSE IF Has(S, p, op.k) THEN R("val", S.kv[<<p, op.k>>]) ELSE Absent
      [] op.a = "pget" ->
             R(IF op.via = "r" THEN "ents" ELSE "entset",
               Select(Entries(S, p), LAMBDA k : IsPrefixOf(op.k, k)))
      [] op.a = "iterp" -> R("ents", Select(Entries(S, p), LAMBDA k : IsPrefixOf(op.k, k)))
      [] op.a = "iter"  -> R("ents", IterRes(Entries(S, p), op))

Res(st, op) ==
    IF op.a \in CtlOps THEN OkRes
    ELSE IF op.a \in WriteOps THEN WriteRes(st, op)
    ELSE ReadRes(st, op)

\* -------- effect
Changes(st, op) == op.a \in WriteOps /\ op.via = "w" /\ Res(st, op).c = "ok"

NewView(st, op) ==
    LET S == st.view  p == op.p IN
    IF ~Changes(st, op) THEN S
    ELSE CASE op.a = "create" -> SCreate(S, p)
           [] op.a = "delb"   -> SDelB(S, p)
           [] op.a = "put"    -> SPut(S, p, op.k, op.v)
           [] op.a = "del"    -> SDel(S, p, op.k)
           [] op.a = "clear"  -> SClear(S, p)

UnderDead(st, p) == \E d \in st.dead : Under(d, p)

Eff(st, op) ==
    CASE op.a = "begin"  -> [st EXCEPT !.open = TRUE, !.mode = op.via, !.view = st.com, !.dead = {}]
      [] op.a = "commit" -> [st EXCEPT !.open = FALSE, !.mode = "", !.com = st.view,
                                       !.view = EmptyStore, !.dead = {}]
      [] op.a \in {"rollback", "errret"} ->
                            [st EXCEPT !.open = FALSE, !.mode = "", !.view = EmptyStore, !.dead = {}]
      [] op.a = "reopen" -> st
      [] op.a \in WriteOps /\ op.via = "w" ->
             [st EXCEPT !.view = NewView(st, op),
                        !.dead = IF Changes(st, op) /\ op.a = "delb" THEN @ \cup {q \in st.view.bk : Under(op.p, q)}
                                 ELSE IF Changes(st, op) /\ op.a = "create" THEN @ \ {op.p}
                                 ELSE @,
                        !.taint = @ \/ UnderDead(st, IF op.a \in {"create", "delb"} THEN Parent(op.p) ELSE op.p)]
      [] OTHER -> st

--------------------------------------------------------------------------
(* comparison of an observed result with the expected one                  *)
Rng(s) == {s[i] : i \in DOMAIN s}

Match(exp, got) ==
    CASE exp.c = "any"    -> got.c \in {"ok", "err"}
      [] exp.c = "noval"  -> got.c \in {"absent", "err"}
      [] exp.c = "val"    -> got.c = "val" /\ got.x = exp.x
      [] exp.c = "ents"   -> got.c = "ents" /\ got.x = exp.x
      [] exp.c = "entset" -> got.c = "ents" /\ Rng(got.x) = Rng(exp.x)
      [] exp.c = "names"  -> got.c = "names" /\ Rng(got.x) = Rng(exp.x)
      [] OTHER            -> got.c = exp.c

(* Observation of the whole store through one read procedure `how`, over the *)
(* probe paths pp and probe keys pk (sequences), through a read ("r") or the *)
(* open write ("w") transaction; got is a sequence of [p, e] records for the *)
(* buckets the procedure found.                                             *)
(*   "list"  recursive bucket listing from the root: exactly the bucket tree *)
(*   "get"   lookup of every probe path, point read of every probe key       *)
(*   "pget"  lookup of every probe path, prefix read with the empty prefix   *)
(*   "iter"  (read transaction) lookup + full iteration                      *)
ObsMatch(S, how, via, pp, pk, got) ==
    LET gp == {got[i].p : i \in DOMAIN got} IN
    /\ Cardinality(gp) = Len(got)                         \* a bucket is reported once
    /\ IF how = "list" THEN gp = S.bk ELSE gp = Rng(pp) \cap S.bk
    /\ \A i \in DOMAIN got :
         LET p == got[i].p  e == got[i].e IN
         CASE how = "list" -> TRUE
           [] how = "get"  -> Rng(e) = {<<k, S.kv[<<p, k>>]>> : k \in Rng(pk) \cap KeysOf(S, p)}
           [] how = "pget" /\ via = "w" -> Rng(e) = Rng(Entries(S, p))
           [] OTHER -> e = Entries(S, p)
=============================================================================
