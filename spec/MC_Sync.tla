------------------------------- MODULE MC_Sync -------------------------------
(* Structure-only universe: no transactions; every interleaving of chain    *)
(* growth, side blocks, reorganisations and handler steps.                  *)
EXTENDS Wallet
MC_TxIds   == {}
MC_TxIns   == [t \in {} |-> {}]
MC_TxOuts  == [t \in {} |-> <<>>]
MC_TxOrder == <<>>
MC_CbId    == [b \in 1..MaxBlocks |-> b]
MC_CbOut   == [b \in 1..MaxBlocks |-> [owner |-> "S", addr |-> 0, class |-> "cb", amt |-> 1, lock |-> 0]]
=============================================================================
