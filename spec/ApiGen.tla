------------------------------- MODULE ApiGen -------------------------------
(***************************************************************************)
(* Case generator for C19.  A state of this module is ONE case of the      *)
(* plan; TLC's search visits every case once and the invariant Emit prints *)
(* it as a JSON line.  harness/cmd/api evaluates the implementation on the *)
(* cases; the verdict on every recorded line is TLC's again (ApiTrace).    *)
(*                                                                         *)
(*   call   initial state class x method x shape            (Api!Cases)    *)
(*          via "direct" (handler method called) or "grpc" (real listener, *)
(*          generated client: a handler panic ends the process)            *)
(*   event  state class x {block, tx} x relevance x output-script shape    *)
(*   start  wallet start-up with one failing storage read                  *)
(*                                                                         *)
(* "rule" and "allowed" are printed for the reader of the plan only; the   *)
(* trace judge derives them again from (method, shape) and the recorded    *)
(* wallet state.                                                           *)
(*                                                                         *)
(* Model-level checks (statements about the SPECIFICATION, ASSUMEd here):  *)
(* the case table is a function of (method, shape), uses only known rules, *)
(* every rule is total on the initial state classes, and every method has  *)
(* a MUST-ACCEPT case in state "ready" unless listed in NoAcceptCase.      *)
(***************************************************************************)
EXTENDS Api, Json

CONSTANTS CallStates,     \* initial state classes in which the calls are issued
          BigStates,      \* ... in which the "huge derivation index" shapes are issued too (each costs the caller's
                          \* whole patience on a tree that does not bound them)
          GrpcStates,     \* state classes in which calls are ALSO sent through the wallet's own gRPC server
          GrpcAll,        \* TRUE: every case goes through gRPC there; FALSE: the representative set GrpcSample
          EvStates,       \* state classes in which chain events are delivered
          EvKinds, EvRel, EvScripts,
          Starts

VARIABLE c
vars == <<c>>

BigCases == {<<"ImportMnemonic", "ext=big">>, <<"ImportMnemonic", "int=big">>, <<"ImportWallet", "ks=bigindex">>}
CallRec(s, x, via) == [kind |-> "call", state |-> s, m |-> x[1], sh |-> x[2], rule |-> x[3], via |-> via,
                        allowed |-> Allowed(StateOf(s), x[3]), mut |-> Mutating(x[1], x[2]), ev |-> "", rel |-> ""]
\* (the shapes naming the transactions of the "afterevents" history exist in that class only)
InClass(s, y) == /\ (<<y[1], y[2]>> \notin BigCases \/ s \in BigStates)
                 /\ (y[2] \notin EvShapes \/ s = "afterevents")
CallPlan == UNION {{CallRec(s, x, "direct") : x \in {y \in Cases : InClass(s, y)}} : s \in CallStates}
\* the same contract over the real transport: a valid and a malformed request of the main kinds, requests the wire
\* format cannot carry, and the shapes that are known to make a handler panic on some tree
GrpcSample == {<<"Wallets", "base">>, <<"GetClientStatus", "base">>, <<"UseWallet", "wid=short">>, <<"UseWallet", "wid=long10k">>,
               <<"GetWalletBalance", "detail=true">>, <<"GetWalletBalance", "conf=neg">>, <<"GetUtxo", "addr=ownall">>,
               <<"ValidateAddress", "addr=own">>, <<"ValidateAddress", "addr=garbage">>, <<"ValidateAddress", "addr=bech1">>,
               <<"ValidateAddress", "addr=long10k">>, <<"TxHistory", "base">>, <<"GetStakingHistory", "type=all">>,
               <<"GetBindingHistory", "type=all">>, <<"CreateRawTransaction", "base">>, <<"CreateRawTransaction", "in=nil">>,
               <<"CreateRawTransaction", "in=voutoor">>, <<"CreateRawTransaction", "in=ppoor">>, <<"CreateRawTransaction", "in=ppbind">>,
               <<"AutoCreateTransaction", "base">>, <<"AutoCreateTransaction", "to=bech1">>, <<"GetTransactionFee", "in=voutmax">>,
               <<"SignRawTransaction", "tx=confirmed">>, <<"SignRawTransaction", "tx=ppout">>, <<"SignRawTransaction", "tx=huge">>,
               <<"SignRawTransaction", "pass=wrong">>, <<"DecodeRawTransaction", "hex=bind22bad">>, <<"SendRawTransaction", "hex=nonhex">>,
               <<"CreateBindingTransaction", "outs=nil">>, <<"ExportWallet", "wid=w1">>, <<"GetWalletMnemonic", "pass=wrong">>}
GrpcPlan == {CallRec(s, x, "grpc") : s \in GrpcStates,
                x \in {y \in Cases : <<y[1], y[2]>> \notin BigCases /\ ~Mutating(y[1], y[2]) /\ (GrpcAll \/ <<y[1], y[2]>> \in GrpcSample)}}
EventPlan == {[kind |-> "event", state |-> s, m |-> "", sh |-> sc, rule |-> "", via |-> "", allowed |-> {}, mut |-> FALSE, ev |-> e, rel |-> r]
                : s \in EvStates, e \in EvKinds, r \in EvRel, sc \in EvScripts}
StartPlan == {[kind |-> "start", state |-> "start", m |-> "", sh |-> f, rule |-> "", via |-> "", allowed |-> {}, mut |-> FALSE, ev |-> "", rel |-> ""]
                : f \in Starts}
Plan == CallPlan \cup GrpcPlan \cup EventPlan \cup StartPlan

Init == c \in Plan
Next == UNCHANGED c
Spec == Init /\ [][Next]_vars

Emit == PrintT(<<"CASE", ToJson(c)>>)

\* ---- model-level checks
NoAcceptCase == {"CreatePoolPkCoinbaseTransaction", "SendRawTransaction", "GetNetworkBinding", "CheckPoolPkCoinbase",
                 "CheckTargetBinding", "ImportMnemonic", "ImportWallet"}
ASSUME \A x \in Cases : x[3] \in Rules
ASSUME \A x, y \in Cases : (x[1] = y[1] /\ x[2] = y[2]) => x = y
ASSUME \A s \in InitStates : StateOf(s) \in AbsState
ASSUME \A s \in InitStates, r \in Rules : Allowed(StateOf(s), r) # {}
Accepting(A) == "ok" \in A /\ "err" \notin A
ASSUME \A m \in Methods \ NoAcceptCase : \E x \in Cases : x[1] = m /\ Accepting(Allowed(StateOf("ready"), x[3]))
ASSUME \A m \in {"ImportMnemonic", "ImportWallet"} : \E x \in Cases : x[1] = m /\ Allowed(StateOf("removed"), x[3]) = OkR
ASSUME BigCases \subseteq CaseKeys /\ BigStates \subseteq InitStates /\ GrpcSample \subseteq CaseKeys /\ GrpcStates \subseteq InitStates
ASSUME CallStates \subseteq InitStates /\ EvStates \subseteq EventStates /\ EvScripts \subseteq ScriptShapes
       /\ EvKinds \subseteq EventKinds /\ EvRel \subseteq Relevance /\ Starts \subseteq StartShapes
=============================================================================
