-------------------------------- MODULE Bip39 --------------------------------
(***************************************************************************)
(* C13 - mnemonic encoding is exactly BIP-39 (English word list).          *)
(*                                                                         *)
(* Functional specification.  Three layers:                                *)
(*                                                                         *)
(*  1. the codec on numbers: entropy bytes + the first byte h of           *)
(*     SHA-256(entropy) -> word indices 0..2047 (Encode), and back         *)
(*     (DecodeEnt, DecodeCs, Accepts);                                     *)
(*  2. the shape of an input STRING, as a sequence of atoms (list word,    *)
(*     near-word, garbage token, separator), its word sequence, and the    *)
(*     class the property statement puts it in: MUST-ACCEPT / MUST-REJECT /*)
(*     DONT-CARE;                                                          *)
(*  3. the judgement of one record of observations of the implementation   *)
(*     (Deviations), used by the trace specification Bip39Trace.           *)
(*                                                                         *)
(* SHA-256 and PBKDF2-HMAC-SHA512 (and Unicode NFKD) are NOT modelled: they*)
(* are trusted primitives, evaluated by the harness with the standard      *)
(* library and handed to the specification as plain inputs (h and the kdf fields).     *)
(* Everything BIP-39 itself defines - bit order, 11-bit regrouping, which  *)
(* part of the hash byte is the checksum, the legal lengths, when a word   *)
(* sequence is a mnemonic, which (password, salt) pair feeds the KDF - is  *)
(* defined here and nowhere else.                                          *)
(*                                                                         *)
(* The word list itself (index <-> string) is pinned by the SHA-256 of the *)
(* canonical english.txt; the specification works on indices.              *)
(***************************************************************************)
EXTENDS Naturals, Sequences, FiniteSets

-----------------------------------------------------------------------------
(* 1. The codec                                                             *)

EntBytes   == {16, 20, 24, 28, 32}        \* ENT = 128 .. 256 bits, multiples of 32
WordCounts == {12, 15, 18, 21, 24}        \* MS  = (ENT + CS) / 11
CsBitsOf(nbytes) == nbytes \div 4         \* CS  = ENT / 32   (bits)
BytesOf(nwords)  == 4 * (nwords \div 3)   \* ENT/8 of a sentence of nwords words
WordsOf(nbytes)  == 3 * (nbytes \div 4)

IsEntropy(e) == Len(e) \in EntBytes /\ \A j \in 1..Len(e) : e[j] \in 0..255

\* bit k of v (k = 0: least significant)
Bit(v, k) == (v \div (2^k)) % 2

\* the elements of seq written as w-bit big-endian numbers, concatenated (most significant bit first)
BitsOf(seq, w) == [j \in 1..(w * Len(seq)) |-> Bit(seq[((j-1) \div w) + 1], (w-1) - ((j-1) % w))]

\* the number written by bits[from .. from+w-1], most significant first
Val(bits, from, w) ==
    LET F[j \in 0..w] == IF j = 0 THEN 0 ELSE 2 * F[j-1] + bits[from + j - 1] IN F[w]

\* cut a bit string into consecutive w-bit numbers
Regroup(bits, w) == [k \in 1..(Len(bits) \div w) |-> Val(bits, w * (k-1) + 1, w)]

\* the first n bits of the byte h, as a number
TopBits(h, n) == h \div (2^(8-n))

(* BIP-39 "Generating the mnemonic": append the first ENT/32 bits of        *)
(* SHA-256(entropy) to the entropy, split into groups of 11 bits, each      *)
(* group is the index of a word.   h = first byte of SHA-256(ent).          *)
Encode(ent, h) ==
    LET cs == CsBitsOf(Len(ent))
    IN  Regroup(BitsOf(ent, 8) \o BitsOf(<<TopBits(h, cs)>>, cs), 11)

\* the inverse direction, for a sequence idx of word indices of a legal length
DecodeEnt(idx) == LET b == BitsOf(idx, 11) IN Regroup(SubSeq(b, 1, 8 * BytesOf(Len(idx))), 8)
DecodeCs(idx)  == LET b == BitsOf(idx, 11) IN Val(b, 8 * BytesOf(Len(idx)) + 1, Len(idx) \div 3)

\* idx is a mnemonic  <=>  legal length, list indices, checksum bits = first bits of the hash of
\* the entropy bits;  h = first byte of SHA-256(DecodeEnt(idx))
Accepts(idx, h) ==
    /\ Len(idx) \in WordCounts
    /\ \A j \in 1..Len(idx) : idx[j] \in 0..2047
    /\ DecodeCs(idx) = TopBits(h, Len(idx) \div 3)

-----------------------------------------------------------------------------
(* 2. Input strings as atom sequences, and the classes of the statement     *)
(*                                                                          *)
(* An atom is a record [k, i, f]:                                           *)
(*   k = "w"  the list word with index i, spelled exactly as in the list    *)
(*   k = "n"  a NEAR-word: word i in another spelling (f = "upper": all     *)
(*            capitals, "cap": capitalised).  It is not a list word, but    *)
(*            BIP-39 does not forbid a reader to fold case.                 *)
(*   k = "x"  a garbage token: not a list word in any reading (f names how  *)
(*            the harness spells it: "zzzz", word i + "x", a digit, two     *)
(*            words run together ...; the harness refuses a spelling that   *)
(*            happens to be a list word)                                    *)
(*   k = "s"  one separator character of kind f                             *)
(* Tokens (k # "s") never touch: there is a separator atom between any two, *)
(* so the word sequence of the string is the sequence of its tokens.        *)
(*                                                                          *)
(* Separators.  U+0020 is THE separator of English mnemonics: strings that  *)
(* differ only in the number of spaces between / around the words carry the *)
(* same word sequence (MustSep).  About every other white-space character   *)
(* (tab, line ends, NBSP, the ideographic space of the Japanese list ...)   *)
(* the statement is silent: an implementation may split at it or take it as *)
(* part of a token - which then is no list word (MaySep).                   *)

MustSep == {"sp"}
MaySep  == {"tab", "lf", "cr", "vt", "ff", "nel", "nbsp", "emsp", "ideo"}
NearForms == {"upper", "cap"}

IsAtom(a) ==
    /\ DOMAIN a = {"k", "i", "f"}
    /\ a.k \in {"w", "n", "x", "s"}
    /\ a.i \in 0..2047
    /\ a.k = "s" => a.f \in MustSep \cup MaySep
    /\ a.k = "n" => a.f \in NearForms

WellFormedAtoms(atoms) ==
    /\ \A j \in 1..Len(atoms) : IsAtom(atoms[j])
    /\ \A j \in 1..(Len(atoms) - 1) : atoms[j].k = "s" \/ atoms[j+1].k = "s"

IsTok(a) == a.k # "s"
Toks(atoms) == SelectSeq(atoms, IsTok)
Idx(toks)   == [j \in 1..Len(toks) |-> toks[j].i]

\* the string is exactly: list words joined by single spaces (what NewMnemonic must produce)
Canonical(atoms) ==
    /\ Len(atoms) % 2 = 1
    /\ \A j \in 1..Len(atoms) : IF j % 2 = 1 THEN atoms[j].k = "w"
                                             ELSE atoms[j].k = "s" /\ atoms[j].f = "sp"
CanonicalAtoms(idx) ==
    [j \in 1..(2 * Len(idx) - 1) |-> IF j % 2 = 1 THEN [k |-> "w", i |-> idx[(j+1) \div 2], f |-> ""]
                                                  ELSE [k |-> "s", i |-> 0, f |-> "sp"]]

HasMaySep(atoms) == \E j \in 1..Len(atoms) : atoms[j].k = "s" /\ atoms[j].f \in MaySep
HasNear(atoms)   == \E j \in 1..Len(atoms) : atoms[j].k = "n"
HasGarbage(atoms) == \E j \in 1..Len(atoms) : atoms[j].k = "x"

\* every token is a list word in SOME permitted reading and the length is legal: only then is there
\* a checksum to look at, and the harness is asked for the hash of exactly these bytes
Decodable(atoms) == Len(Toks(atoms)) \in WordCounts /\ ~HasGarbage(atoms)
HashInput(atoms) == LET t == Toks(atoms) IN
                    IF Len(t) \in WordCounts /\ ~HasGarbage(atoms) THEN DecodeEnt(Idx(t)) ELSE <<>>

(* Why a string is no mnemonic, in the order the statement lists the        *)
(* conditions; "" if it is one in the most generous reading.                *)
RejectReason(atoms, h) ==
    LET t == Toks(atoms) IN
    IF Len(t) \notin WordCounts THEN "length"
    ELSE IF HasGarbage(atoms) THEN "word"
    ELSE IF ~Accepts(Idx(t), h) THEN "checksum"
    ELSE ""

(* MUST-REJECT: no reading makes it a mnemonic (a may-separator taken as    *)
(*   part of a token, or a near-word taken literally, only produces a       *)
(*   non-list token, i.e. another reason to reject).                        *)
(* MUST-ACCEPT: list words in list spelling, separated/surrounded by U+0020 *)
(*   only, legal length, correct checksum.                                  *)
(* DONT-CARE: a mnemonic in the generous reading that needs a may-separator *)
(*   to split or a near-word to be folded.  Either answer is right; but an  *)
(*   implementation that accepts must decode it as the generous reading.    *)
ClassOf(atoms, why) ==
    IF why # "" THEN "MUST-REJECT"
    ELSE IF HasMaySep(atoms) \/ HasNear(atoms) THEN "DONT-CARE"
    ELSE "MUST-ACCEPT"
Class(atoms, h) == ClassOf(atoms, RejectReason(atoms, h))

-----------------------------------------------------------------------------
(* 3. Judging one record of observations                                    *)
(*                                                                          *)
(* L.ent, L.cs     source entropy and first byte of its SHA-256 (harness)   *)
(* L.mut           "none": L.atoms is the canonical spelling of             *)
(*                 Encode(L.ent, L.cs) and NewMnemonic(L.ent) was called;   *)
(*                 anything else: L.atoms was derived from it somehow       *)
(* L.atoms         the input string as atoms; L.text = its spelling         *)
(* L.hin, L.h      HashInput(L.atoms) as the harness was told, and the      *)
(*                 first byte of its SHA-256 (0 when hin is empty)          *)
(* L.pass_hex, L.nfkd_hex   passphrase bytes, and bytes of its NFKD form    *)
(* L.kdf.cn/.cr/.rn/.rr   PBKDF2-HMAC-SHA512(password, "mnemonic"+salt,     *)
(*                 2048, 64) for password = Canonical spelling of the word  *)
(*                 sequence / Raw text, salt = Nfkd / Raw passphrase        *)
(* L.enc  [run, ok, text, panic]   NewMnemonic(ent)                         *)
(* L.efm  [ok, ent, panic]         EntropyFromMnemonic(text)                *)
(* L.raw  [ok, ent, panic]         MnemonicToByteArray(text, true)          *)
(* L.full [ok, panic]              MnemonicToByteArray(text)                *)
(* L.valid [v, panic]              IsMnemonicValid(text)                    *)
(* L.seed [ok, hex, panic]         NewSeedWithErrorChecking(text, pass)     *)
(* L.nseed [hex, panic]            NewSeed(text, pass)                      *)

\* the record is internally consistent with the specification (otherwise the TRACE is wrong, not the code)
LineSane(L) ==
    /\ WellFormedAtoms(L.atoms)
    /\ L.hin = HashInput(L.atoms)
    /\ L.h \in 0..255
    /\ L.mut = "none" => /\ IsEntropy(L.ent)
                         /\ L.cs \in 0..255
                         /\ L.atoms = CanonicalAtoms(Encode(L.ent, L.cs))
                         /\ L.enc.run

NfkdChanges(L) == L.pass_hex # L.nfkd_hex

(* The seed BIP-39 prescribes: password = the mnemonic sentence, salt =      *)
(* "mnemonic" + NFKD(passphrase).  For the canonical spelling there is one   *)
(* sentence.  For a re-spaced / re-cased spelling the statement does not say *)
(* whether the sentence is the string as typed or the word sequence joined   *)
(* canonically: both are allowed.                                            *)
SeedsAllowed(L) == IF Canonical(L.atoms) THEN {L.kdf.cn} ELSE {L.kdf.cn, L.kdf.rn}
\* the same computation with the passphrase bytes used as they are (no NFKD): recorded finding
SeedsUnnormalised(L) == IF Canonical(L.atoms) THEN {L.kdf.cr} ELSE {L.kdf.cr, L.kdf.rr}

SeedKinds(hex, L, fn) ==
    IF hex \in SeedsAllowed(L) THEN {}
    ELSE IF NfkdChanges(L) /\ hex \in SeedsUnnormalised(L) THEN {fn \o "-passphrase-not-nfkd"}
    ELSE {fn \o "-wrong"}

\* a decoder: result [ok, ent, panic]
DecoderKinds(r, L, cls, fn) ==
    IF r.panic THEN {fn \o "-panic"}
    ELSE CASE cls = "MUST-REJECT" -> IF r.ok THEN {fn \o "-accepts-invalid"} ELSE {}
           [] cls = "MUST-ACCEPT" -> IF ~r.ok THEN {fn \o "-rejects-valid"}
                                     ELSE IF r.ent # L.hin THEN {fn \o "-wrong-entropy"} ELSE {}
           [] OTHER               -> IF r.ok /\ r.ent # L.hin THEN {fn \o "-wrong-entropy"} ELSE {}

Deviations(L) ==
    LET why == RejectReason(L.atoms, L.h)
        cls == ClassOf(L.atoms, why)
    IN
    \* ---- NewMnemonic: the canonical spelling of Encode(ent, sha256(ent)[0]), nothing else
    (IF L.mut = "none"
     THEN IF L.enc.panic THEN {"encode-panic"}
          ELSE IF ~L.enc.ok THEN {"encode-error"}
          ELSE IF L.enc.text # L.text THEN {"encode-mismatch"} ELSE {}
     ELSE {})
    \* ---- the two decoders: accept exactly the mnemonics, return the entropy
    \cup DecoderKinds(L.efm, L, cls, "decode")
    \cup DecoderKinds(L.raw, L, cls, "rawdecode")
    \* ---- MnemonicToByteArray without "raw": the statement fixes only whether it accepts
    \cup (IF L.full.panic THEN {"fulldecode-panic"}
          ELSE IF cls = "MUST-REJECT" /\ L.full.ok THEN {"fulldecode-accepts-invalid"}
          ELSE IF cls = "MUST-ACCEPT" /\ ~L.full.ok THEN {"fulldecode-rejects-valid"} ELSE {})
    \* ---- IsMnemonicValid
    \cup (IF L.valid.panic THEN {"isvalid-panic"}
          ELSE IF cls = "MUST-REJECT" /\ L.valid.v
               THEN IF why = "checksum" THEN {"isvalid-accepts-bad-checksum"} ELSE {"isvalid-accepts-invalid"}
          ELSE IF cls = "MUST-ACCEPT" /\ ~L.valid.v THEN {"isvalid-rejects-valid"} ELSE {})
    \* ---- NewSeedWithErrorChecking: accepts exactly the mnemonics and yields the BIP-39 seed
    \cup (IF L.seed.panic THEN {"seed-panic"}
          ELSE IF cls = "MUST-REJECT" THEN (IF L.seed.ok THEN {"seed-accepts-invalid"} ELSE {})
          ELSE IF ~L.seed.ok THEN (IF cls = "MUST-ACCEPT" THEN {"seed-rejects-valid"} ELSE {})
          ELSE SeedKinds(L.seed.hex, L, "seed"))
    \* ---- NewSeed (no checking): judged only where the statement speaks - on mnemonics
    \cup (IF L.nseed.panic THEN {"newseed-panic"}
          ELSE IF cls = "MUST-ACCEPT" THEN SeedKinds(L.nseed.hex, L, "newseed") ELSE {})

=============================================================================
