---------------------------- MODULE AmountTrace ----------------------------
(***************************************************************************)
(* Trace specification for C15: TLC judges every line that the Go command  *)
(* harness/cmd/amount recorded from the implementation.                    *)
(*                                                                         *)
(* Line 1 is the header [k = "hdr", max, unit, cliav]: the constants the   *)
(* linked mass-core really uses (they must be the ones of Amount.tla) and  *)
(* whether the CLI parser is linked.  Every other line is one case:        *)
(*   parse  in (bytes), api / cli = [ok, val (digits), panic]              *)
(*   fmt    neg, d (digits of |m|), fapi / fmw = [ok, out (bytes), panic], *)
(*          rt = api parser applied to fapi.out (hasrt says whether)       *)
(* The state is the index of the line under judgement.  Lines are          *)
(* independent, so the index is walked as a binary heap (i -> 2i, 2i+1):   *)
(* every index 1..N is reached exactly once and TLC's workers share the    *)
(* work.  Judged(i) is the set of clauses of Amount.tla that line i        *)
(* violates, each tagged with the known finding that explains it (or "").  *)
(*                                                                         *)
(* StrictMode = TRUE : Conforms is a real invariant - TLC stops at the first   *)
(*                 line with a deviation no enabled known finding explains.*)
(* StrictMode = FALSE: TLC reports every deviating line (DEVIATION ...) and    *)
(*                 goes on, so that a recorded finding cannot mask a new   *)
(*                 one further down.  The caller must see N distinct       *)
(*                 states, i.e. every line judged.                         *)
(***************************************************************************)
EXTENDS Amount, Json, TLC

CONSTANTS TraceFile,     \* path of the ndjson trace
          KnownEnabled,  \* ids of known findings whose classifier may explain a deviation
          StrictMode

Trace == ndJsonDeserialize(TraceFile)
N == Len(Trace)

VARIABLE i
vars == <<i>>

Init == i = 1
Next == \E j \in {2 * i, 2 * i + 1} : j <= N /\ i' = j
Spec == Init /\ [][Next]_vars

KnownFor(fn, s, r) ==
    IF "K-C15-1" \in KnownEnabled /\ KnownSignTolerated(s, r) THEN "K-C15-1" ELSE ""

Dev(n, fn, clause, why, known) == [line |-> n, fn |-> fn, clause |-> clause, why |-> why, known |-> known]

JudgeParse(n, l) ==
    {Dev(n, "api.StringToAmount", cl, Why(l.in), IF cl = "must-reject-accepted" THEN KnownFor("api", l.in, l.api) ELSE "")
        : cl \in ParseDeviations(l.in, l.api)}
    \cup
    IF ~Trace[1].cliav THEN {} ELSE      \* CLI parser not linked into this build: the cli field only repeats api
    {Dev(n, "cli.stringToAmount", cl, Why(IF CliPlain(l.in) THEN l.in ELSE CliCore(l.in)),
         IF cl = "must-reject-accepted"
         THEN KnownFor("cli", IF CliPlain(l.in) THEN l.in ELSE CliCore(l.in), l.cli) ELSE "")
        : cl \in CliDeviations(l.in, l.cli)}

JudgeFmt(n, l) ==
    {Dev(n, "api.AmountToString", cl, "", "") : cl \in FormatDeviations(l.neg, l.d, l.fapi)}
    \cup {Dev(n, "masswallet.AmountToString", cl, "", "") : cl \in FormatDeviations(l.neg, l.d, l.fmw)}
    \cup {Dev(n, "api.StringToAmount(api.AmountToString)", cl, "", "")
            : cl \in RoundTripDeviations(l.neg, l.d, l.fapi.ok /\ l.hasrt, l.rt)}
    \cup (IF l.fapi.ok /\ ~l.hasrt THEN {Dev(n, "harness", "round-trip-not-recorded", "", "")} ELSE {})

JudgeHdr(n, l) ==
    IF l.k = "hdr" /\ l.max = MaxAmountDigits /\ l.unit = UnitDigits THEN {}
    ELSE {Dev(n, "header", "constants-differ", "", "")}

Judged(n) == LET l == Trace[n]
             IN  IF n = 1 THEN JudgeHdr(n, l)
                 ELSE CASE l.k = "parse" -> JudgeParse(n, l)
                        [] l.k = "fmt"   -> JudgeFmt(n, l)
                        [] OTHER         -> {Dev(n, "harness", "unknown-line-kind", "", "")}

Conforms ==
    LET devs == Judged(i)
    IN  /\ \A dv \in devs : PrintT(<<"DEVIATION", ToJson(dv)>>)
        /\ StrictMode => \A dv \in devs : dv.known # ""
=============================================================================
