------------------------------- MODULE Wallet -------------------------------
(***************************************************************************)
(* Composition: the node (Chain) and the wallet follower (Follower) with   *)
(* the oracle (Ledger).  Next is the full interleaving of chain changes    *)
(* with handler steps: "tips announced faster than they are processed" is  *)
(* simply several chain actions before a HandleBlock.                      *)
(***************************************************************************)
EXTENDS Follower

vars == <<chainVars, followerVars>>

Init == ChainInit /\ FollowerInit

CONSTANT MultiStep \* TRUE: a reorganisation is a sequence of single disconnects / connects (ReorgBegin, ReorgStep)
                   \* that handler steps may interleave with; FALSE: it is the atomic SwitchTo

ChainStep ==
    \/ /\ StrictOrder => ntfT = <<>>
       /\ \/ \E txs \in Contents(CC(best)) : Extend(txs)
          \/ \E p \in (Blocks \cup {0}) : \E txs \in Contents(CC(Path(p))) : MineSide(p, txs)
          \/ ~MultiStep /\ \E l \in Blocks : SwitchTo(l)
          \/ MultiStep /\ \E l \in Blocks : ReorgBegin(l)
    \/ MultiStep /\ ReorgStep
    \/ /\ StrictOrder => ntfB = <<>>
       /\ \E t \in TxIds : Announce(t)

CONSTANT Crashes,  \* TRUE: Crash / Restart / RestartCrash enabled (C06)
         Lifecycle,\* TRUE: Import / Remove and the background worker enabled (C07, C08)
         Faults    \* TRUE: storage faults enabled (C18)

Next ==
    \/ up /\ ChainStep /\ UNCHANGED followerVars      \* the node runs only while the process is up
    \/ HandleBlock
    \/ HandleTx
    \/ Lifecycle /\ \E x \in Wallets : Import(x) \/ Remove(x)
    \/ Lifecycle /\ (ImportStep \/ RemoveStep)
    \/ Lifecycle /\ MultiStep /\ (RemoveStepA \/ RemoveStepB)
    \/ Faults /\ (HandleBlockFault \/ HandleTxFault \/ WorkerStepFault)
    \/ Crashes /\ Crash
    \/ Crashes /\ Lifecycle /\ \E k \in 1..RemoveCommits : RemoveStepCrash(k)
    \/ Crashes /\ Restart
    \/ Crashes /\ \E k \in 1..MaxBlocks : RestartCrash(k)

Spec == Init /\ [][Next]_vars

\* C01 (ledger part) is definitional at this level: the view of a ready wallet
\* is View(wchain, pend, w); with SyncedWhenQuiet it is the oracle of best.
LedgerWhenQuiet ==
    Quiescent => \A w \in Ready : View(CC(wchain), pend, w) = View(CC(best), pend, w)

\* C07: a wallet leaves "importing" only when the rescan has reached the wallet's tip
ImportCovers == \A w \in Wallets : status[w] = "importing" => cursor[w] <= Len(wchain)
=============================================================================
