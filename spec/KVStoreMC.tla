------------------------------ MODULE KVStoreMC ------------------------------
(* Themes (constant universes) of the C11 behaviour generator.  Byte strings   *)
(* are written as tuples of byte values.  The alphabet is adversarial for the  *)
(* encoding <depth>_<path>_<key> used by masswallet/db/ldb:                    *)
(*   ""  "a"  "_"  "a_b"  "1_a"  "b_1_a"  "2"  0xff  "a"0xff                   *)
EXTENDS KVStoreGen

bE == <<>>              bA == <<97>>          bB == <<98>>        bS == <<115>>
bUS == <<95>>           bAB == <<97, 95, 98>> b1A == <<49, 95, 97>>
bB1A == <<98, 95, 49, 95, 97>>                b1 == <<49>>        b2 == <<50>>
bFF == <<255>>          bAFF == <<97, 255>>   bAFFFF == <<97, 255, 255>>
bFFFF == <<255, 255>>   bA0 == <<97, 0>>      b0 == <<0>>
v1 == <<118, 49>>       v2 == <<0, 255, 95>>  v3 == <<51>>

Adv == {bE, bA, bUS, bAB, b1A, bB1A, b2, bFF, bAFF}

NoOps == <<>>
None == {}
Seqs(S) == SetToSeq(S)

\* ---- theme "order": put / delete / clear / re-put / bucket delete / re-create orders
\*      over a committed base, to exercise the overlay of the batch on the snapshot
O_A == <<bA>>   O_AS == <<bA, bS>>
O_Prefix == << Begin("m"), W("create", O_A, bE, bE), W("create", O_AS, bE, bE),
               W("put", O_A, bA, v1), W("put", O_AS, bA, v1), W("put", O_AS, bAFF, v1),
               Ctl("commit"), Begin("m") >>
O_Paths  == {O_A, O_AS}
O_Create == {O_AS}
O_Keys   == {bA, bAFF}
O_Vals   == {v1, v2}
O_ProbeP == <<O_A, O_AS>>
O_ProbeK == <<bA, bAFF>>

\* ---- theme "keys": the full adversarial key alphabet in buckets whose names make the keys
\*      look like other buckets' encodings (isolation)
K_A == <<bA>>  K_AB == <<bA, bB>>  K_B == <<bB>>  K_1 == <<b1>>  K_1A == <<b1, bA>>  K_2 == <<b2>>
K_Prefix == << Begin("u"), W("create", K_A, bE, bE), W("create", K_AB, bE, bE), W("create", K_B, bE, bE),
               W("create", K_1, bE, bE), W("create", K_1A, bE, bE), W("create", K_2, bE, bE),
               Ctl("commit"), Begin("m") >>
K_Paths  == {K_A, K_AB, K_B, K_1, K_1A, K_2}
K_Keys   == Adv
K_Vals   == {v1}
K_ProbeP == <<K_A, K_AB, K_B, K_1, K_1A, K_2, <<bB, b1>>, <<bB, b1, bA>>, <<bA, bUS>>, <<b1, b1>> >>
K_ProbeK == Seqs(Adv \cup {bB, b1, <<98, 95, 107>>, <<97, 95, 107>>, <<49, 95, 107>>})

\* ---- theme "names": adversarial bucket names, top level and nested
N_A == <<bA>>
N_Prefix == << Begin("m"), W("create", N_A, bE, bE) >>
N_Create == {<<n>> : n \in Adv} \cup {<<bA, n>> : n \in Adv} \cup {<<bA, bB, bA>>, <<bB, bA>>}
N_Paths  == {<<bA, bB>>, <<b2>>, <<bA, b2>>, <<bAFF>>, <<bAB>>, <<bA, bUS>>}
N_Keys   == {bA}
N_Vals   == {v1}
N_ProbeP == Seqs(N_Create \cup {N_A})
N_ProbeK == <<bA, bB>>

\* ---- theme "reads": every read operation with adversarial arguments on a populated store
R_A == <<bA>>  R_AB == <<bA, bB>>
R_KeysIn == {bA, bUS, bAB, b1A, bB1A, b2, bFF, bAFF, bAFFFF, bA0}
RECURSIVE PutAll(_, _)
PutAll(p, ks) == IF ks = <<>> THEN <<>> ELSE <<W("put", p, Head(ks), Head(ks) \o v3)>> \o PutAll(p, Tail(ks))
R_Base == << Begin("m"), W("create", R_A, bE, bE), W("create", R_AB, bE, bE) >>
              \o PutAll(R_A, SetToSortSeq(R_KeysIn, Less))
              \o << W("put", R_AB, bA, v1), W("put", R_AB, bFF, v2), W("put", <<bA, bB>>, b2, v1), Ctl("commit") >>
R_Prefix     == R_Base                          \* entries still in the memory table
R_PrefixDisk == R_Base \o << Ctl("reopen") >>   \* entries recovered from the journal into a table file
\* an open write transaction over the committed base: deleted, overwritten, re-put and new keys
R_PrefixW == R_Base \o << Begin("m"), W("del", R_A, bAFF, bE), W("put", R_A, bA, v2), W("del", R_A, b2, bE),
                          W("put", R_A, b2, v2), W("put", R_A, bFFFF, v1), W("put", R_A, b0, v1),
                          W("del", R_AB, bFF, bE), W("create", <<bA, bS>>, bE, bE), W("put", <<bA, bS>>, bA, v1) >>
R_Paths  == {R_A, R_AB, <<bB>>}
R_Keys   == Adv \cup {bAFFFF, bA0, bFFFF, b0}
R_Pre    == Adv \cup {bAFFFF, bFFFF, b0, b1}
R_Ranges == (Adv \cup {bFFFF}) \X (Adv \cup {bFFFF})
R_Seeks  == Adv \cup {bFFFF, b0}
R_ProbeP == <<R_A, R_AB, <<bA, bS>>, <<bB>> >>
R_ProbeK == Seqs(R_Keys \cup R_KeysIn)

\* ---- theme "sim": everything at once, for deep random histories
S_Prefix == << Begin("m"), W("create", <<bA>>, bE, bE), W("create", <<bA, bB>>, bE, bE), W("create", <<bB>>, bE, bE),
               W("create", <<b1>>, bE, bE), W("put", <<bA>>, bA, v1), W("put", <<bA, bB>>, bAFF, v2), Ctl("commit") >>
S_Paths  == {<<bA>>, <<bA, bB>>, <<bB>>, <<b1>>, <<b1, bA>>, <<bA, bB, bA>>}
S_Create == {<<bA, bB>>, <<b1, bA>>, <<bA, bB, bA>>, <<b2>>, <<bA, bUS>>, <<bE>>, <<bA, bFF>>, <<bB, b1>>, <<bAB>>}
S_Keys   == Adv \cup {bAFFFF, b0}
S_Vals   == {v1, v2, bE}
S_Pre    == Adv \cup {bAFFFF, bFFFF}
S_Ranges == {<<bE, bE>>, <<bA, bE>>, <<bE, bB>>, <<bA, bAFF>>, <<bA, bB>>, <<b2, bFF>>, <<bUS, bAFFFF>>, <<bB, bA>>, <<bFF, bE>>}
S_Seeks  == {bE, bA, bAB, bAFF, bB, bFF}
S_ProbeP == Seqs(S_Create \cup S_Paths)
S_ProbeK == Seqs(S_Keys \cup {bB})

\* ---- known finding K-C11-1: a bucket deleted in the open write transaction is still found by
\*      Bucket()/FetchBucket(); a write through it is kept as an orphan entry and shows up in a
\*      bucket of the same name created later
F_A == <<bA>>  F_AS == <<bA, bS>>
F_Script == << Begin("m"), W("create", F_A, bE, bE), W("create", F_AS, bE, bE), W("put", F_AS, bA, v1), Ctl("commit"),
               Begin("m"), W("delb", F_AS, bE, bE), Rd("get", "w", F_AS, bA), W("put", F_AS, bB, v2), Ctl("commit"),
               Begin("m"), W("create", F_AS, bE, bE), Rd("get", "w", F_AS, bB), Ctl("commit"),
               Rd("get", "r", F_AS, bB) >>
F_ProbeP == <<F_A, F_AS>>
F_ProbeK == <<bA, bB>>
=============================================================================
