------------------------------ MODULE KeystoreU ------------------------------
(***************************************************************************)
(* The universe of the C04 / C05 configurations, shared by the generator   *)
(* (KeystoreMC) and the trace specification (KeystoreTrace).               *)
(*                                                                         *)
(* Three wallets over two mnemonics and two private passphrases:           *)
(*   w1 = (m1, p1)   w2 = (m2, p1)   w3 = (m1, p2)                         *)
(* w1 / w3 share the mnemonic (a different passphrase is a different       *)
(* wallet with a different id), w1 / w2 share the passphrase.  The right   *)
(* passphrase of w3 is a legal but wrong candidate for w1 and w2, and vice *)
(* versa.  Two instances A, B with different public passphrases q1, q2;    *)
(* q3 is a passphrase to change to.                                        *)
(***************************************************************************)
U_WalDef == [w1 |-> [mn |-> "m1", pass |-> "p1"],
             w2 |-> [mn |-> "m2", pass |-> "p1"],
             w3 |-> [mn |-> "m1", pass |-> "p2"]]
U_Inst == {"A", "B"}
U_Pub0 == [A |-> "q1", B |-> "q2"]
U_PubToks == {"q1", "q2", "q3"}
=============================================================================
