------------------------------- MODULE MC_In -------------------------------
(* Theme "incoming": payments whose inputs belong to strangers (the ordinary  *)
(* way a wallet receives funds), a stranger double-spending his own coin,     *)
(* transactions mixing a stranger's input with a wallet's, an outgoing        *)
(* payment, a payment to both wallets from a stranger; i2x: the stranger      *)
(* double-spends the coin he contributed to i2, which also spends a coin of   *)
(* w1.  Base blocks carry                                                     *)
(* stranger coinbases.                                                        *)
EXTENDS Gen
S(o, a, c, v, l) == [owner |-> o, addr |-> a, class |-> c, amt |-> v, lock |-> l]
MC_TxIds   == {"i1", "i1x", "i2", "i2x", "i3", "i4"}
MC_TxIns   == [t \in MC_TxIds |->
                 CASE t = "i1"  -> {<<"c1", 1>>}
                   [] t = "i1x" -> {<<"c1", 1>>}
                   [] t = "i2"  -> {<<"c2", 1>>, <<"i1", 1>>}
                   [] t = "i2x" -> {<<"c2", 1>>}
                   [] t = "i3"  -> {<<"i2", 1>>}
                   [] t = "i4"  -> {<<"c4", 1>>}]
MC_TxOuts  == [t \in MC_TxIds |->
                 CASE t = "i1"  -> <<S("w1", 0, "std", 30, 0), S("S", 0, "std", 19, 0)>>
                   [] t = "i1x" -> <<S("S", 1, "std", 49, 0)>>
                   [] t = "i2"  -> <<S("w2", 0, "std", 40, 0), S("w1", 1, "std", 35, 0)>>
                   [] t = "i2x" -> <<S("S", 3, "std", 49, 0)>>
                   [] t = "i3"  -> <<S("S", 2, "std", 39, 0)>>
                   [] t = "i4"  -> <<S("w1", 0, "std", 5, 0), S("w2", 1, "std", 4, 0)>>]
MC_TxOrder == <<"i1", "i1x", "i4", "i2", "i2x", "i3">>
MC_CbId    == <<"c1", "c2", "c3", "c4", "c5", "c6", "c7", "c8", "c9", "c10", "c11", "c12">>
MC_CbOut   == <<S("S", 0, "cb", 50, 0),  S("S", 0, "cb", 50, 0),  S("w1", 1, "cb", 70, 0),
                S("S", 0, "cb", 10, 0),  S("w2", 1, "cb", 80, 0), S("S", 0, "cb", 1, 0),
                S("S", 0, "cb", 1, 0),   S("S", 0, "cb", 1, 0),   S("S", 0, "cb", 1, 0),
                S("S", 0, "cb", 1, 0),   S("S", 0, "cb", 1, 0),   S("S", 0, "cb", 1, 0)>>
=============================================================================
